"""Extra generators for the smooth-dynamics checks (C05-C08, C25, C29): modelgen models post-processed with
features modelgen does not draw (gravity compensation, polynomial springs/dampers, free-joint springs, tendon
dead-bands, actuator armature/damping, multi-coefficient damping), or stripped down to conservative systems.

  smooth_models(conservative=False, **modelgen_kwargs) -> strategy of GenModel
"""
import xml.etree.ElementTree as ET

from hypothesis import strategies as st

from . import modelgen as mg

num = mg.num
fmt = mg.fmt


def _walk_bodies(root):
  wb = root.find('worldbody')
  out = []

  def rec(e):
    for b in e.findall('body'):
      out.append(b)
      rec(b)
  rec(wb)
  return out


@st.composite
def smooth_models(draw, conservative=False, gravcomp=True, poly=True, free_passive=True, actuator_inertia=True,
                  deadband=True, strip_damping=False, strip_springs=False, fluid=False, **kw):
  kw.setdefault('contacts', False)
  kw.setdefault('plane', False)
  kw.setdefault('equalities', False)
  kw.setdefault('sensors', False)
  jk = dict(kw.pop('joint_kwargs', None) or {})
  if conservative:
    jk.update(limits=False, frictionloss=False)
    kw['actuators'] = False
    kw['equalities'] = False
  kw['joint_kwargs'] = jk
  gm = draw(mg.models(**kw))
  root = ET.fromstring(gm.xml)
  labels = set(gm.info.get('labels', []))
  bodies = _walk_bodies(root)
  for b in bodies:
    if b.get('mocap') == 'true':
      continue
    if gravcomp and not conservative and draw(st.integers(0, 3)) == 0:
      b.set('gravcomp', fmt(draw(num(0, 1.5))))
      labels.add('gravcomp')
    for j in b.findall('joint'):
      jt = j.get('type')
      if jt == 'free' and free_passive and draw(st.integers(0, 2)) == 0:
        if draw(st.booleans()) and not strip_springs:
          j.set('stiffness', fmt(draw(num(0.5, 20, 1))))
          labels.add('spring:free')
        if draw(st.booleans()) and not conservative:
          j.set('damping', fmt(draw(num(0.01, 1))))
        if draw(st.integers(0, 2)) == 0:
          j.set('armature', fmt(draw(num(0.01, 0.3))))
          labels.add('armature:free')
      if conservative or strip_damping:
        j.attrib.pop('damping', None)
      if strip_springs:
        j.attrib.pop('stiffness', None)
      if j.get('stiffness') is not None:
        labels.add('spring:' + jt)
        if poly and draw(st.integers(0, 2)) == 0:
          j.set('stiffness', '%s %s %s' % (j.get('stiffness'), fmt(draw(num(-2, 5, 1))), fmt(draw(num(0, 10, 1)))))
          labels.add('spring:poly')
      if j.get('damping') is not None:
        labels.add('damping:' + jt)
        if poly and draw(st.integers(0, 2)) == 0:
          j.set('damping', '%s %s %s' % (j.get('damping'), fmt(draw(num(0, 0.5))), fmt(draw(num(0, 0.2)))))
          labels.add('damping:poly')
      if j.get('armature') is not None:
        labels.add('armature')
  ten = root.find('tendon')
  if ten is not None:
    for t in list(ten):
      if conservative:
        for a in ('damping', 'frictionloss', 'limited', 'range'):
          t.attrib.pop(a, None)
      if strip_damping:
        t.attrib.pop('damping', None)
      if strip_springs:
        t.attrib.pop('stiffness', None)
      if t.get('stiffness') is not None:
        labels.add('tendon-spring')
        if deadband and draw(st.integers(0, 2)) == 0:
          lo = draw(num(0.0, 0.6))
          if draw(st.booleans()):
            t.set('springlength', '%s %s' % (fmt(lo), fmt(lo + draw(num(0.0, 0.5)))))
            labels.add('tendon-deadband')
          else:
            t.set('springlength', fmt(lo))
        if poly and draw(st.integers(0, 2)) == 0:
          t.set('stiffness', '%s %s %s' % (t.get('stiffness'), fmt(draw(num(-2, 5, 1))), fmt(draw(num(0, 10, 1)))))
          labels.add('tendon-spring:poly')
      if t.get('damping') is not None:
        labels.add('tendon-damping')
        if poly and draw(st.integers(0, 2)) == 0:
          t.set('damping', '%s %s %s' % (t.get('damping'), fmt(draw(num(0, 0.5))), fmt(draw(num(0, 0.2)))))
          labels.add('tendon-damping:poly')
      if t.get('armature') is not None and float(t.get('armature')) > 0:
        labels.add('tendon-armature')
  act = root.find('actuator')
  if act is not None and actuator_inertia:
    for a in list(act):
      if a.get('joint') is None and a.get('tendon') is None:
        continue
      if draw(st.integers(0, 2)) == 0:
        a.set('armature', fmt(draw(num(0.01, 0.3))))
        labels.add('act-armature')
      if draw(st.integers(0, 2)) == 0:
        if draw(st.booleans()):
          a.set('damping', fmt(draw(num(0.01, 1))))
        else:
          a.set('damping', '%s %s %s' % (fmt(draw(num(0, 1))), fmt(draw(num(0, 0.3))), fmt(draw(num(0, 0.1)))))
        labels.add('act-damping')
  gm.xml = ET.tostring(root, encoding='unicode')
  gm.info['labels'] = sorted(labels)
  return gm


def classify(lib, m):
  """Structural labels measured on the compiled model (what the generator actually reached)."""
  import numpy as np
  e = lib.enums
  out = []
  jt = np.array(m.jnt_type)
  names = {e.mjJNT_FREE: 'free', e.mjJNT_BALL: 'ball', e.mjJNT_SLIDE: 'slide', e.mjJNT_HINGE: 'hinge'}
  for t in set(jt.tolist()):
    out.append('m:jnt:' + names[t])
  par = np.array(m.body_parentid)
  jb = np.array(m.jnt_bodyid)
  # ball below slide / hinge, two joints on one body, branching
  for j in range(m.njnt):
    if jt[j] == e.mjJNT_BALL:
      b = par[jb[j]]
      while b > 0:
        for j2 in range(m.njnt):
          if jb[j2] == b and jt[j2] == e.mjJNT_SLIDE:
            out.append('m:ball-below-slide')
          if jb[j2] == b and jt[j2] == e.mjJNT_HINGE:
            out.append('m:ball-below-hinge')
        b = par[b]
  if np.any(np.array(m.body_jntnum) >= 2):
    out.append('m:multijoint-body')
  movers = [b for b in range(1, m.nbody) if m.body_dofnum[b] > 0]
  kids = {}
  for b in movers:
    p = int(m.body_weldid[par[b]]) if par[b] > 0 else 0
    kids.setdefault(p, []).append(b)
  if any(len(v) >= 2 and p > 0 for p, v in kids.items()):
    out.append('m:branching')
  if np.any(np.array(m.dof_armature) > 0):
    out.append('m:armature')
  if m.ntendon and np.any(np.array(m.tendon_armature) > 0):
    out.append('m:tendon-armature')
  iq = np.array(m.body_iquat)
  if m.nbody > 1 and np.any(np.abs(np.abs(iq[1:, 0]) - 1) > 1e-9):
    out.append('m:offdiag-inertia')
  if np.any(np.array(m.dof_simplenum) > 0):
    out.append('m:simple-dofs')
  return sorted(set(out))
