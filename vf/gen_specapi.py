"""Models built through the mjSpec C API (mj_makeSpec, mjs_add*, mjs_setName, mjs_setDefault, mjs_setFrame) via ctypes.

  prog = draw(spec_programs())            # abstract program: JSON-able list of operations (Hypothesis)
  spec = build(lib, prog)                 # -> spec pointer (int); caller owns it (mj_deleteSpec)

The same program always builds the same spec, so that checks can build it twice (C33) or save/reload it (C32).
"""
import math

from hypothesis import strategies as st

from . import modelgen as mg
from .mj import Struct
from .modelgen import num

GEOMS = ['sphere', 'capsule', 'ellipsoid', 'cylinder', 'box']
JOINTS = ['hinge', 'slide', 'ball']


@st.composite
def spec_programs(draw, max_bodies=5, unsafe_order=True):
  unsafe = False
  nb = draw(st.integers(1, max_bodies))
  ncls = draw(st.integers(0, 3))
  classes = []
  for i in range(ncls):
    parent = draw(st.integers(-1, i - 1))      # -1: the spec's main default
    classes.append(dict(name='k%d' % i, parent=parent,
                        geom_friction=[draw(num(0.2, 1.5)), draw(num(0.001, 0.05, 3)), draw(num(0.0001, 0.005, 4))]
                        if draw(st.booleans()) else None,
                        geom_rgba=[draw(num(0, 1, 1)) for _ in range(4)] if draw(st.booleans()) else None,
                        geom_margin=draw(num(0, 0.02, 3)) if draw(st.booleans()) else None,
                        joint_damping=draw(num(0, 2)) if draw(st.booleans()) else None,
                        joint_armature=draw(num(0, 0.3)) if draw(st.booleans()) else None,
                        site_size=draw(num(0.005, 0.05, 3)) if draw(st.booleans()) else None))
  bodies = []
  for i in range(nb):
    parent = draw(st.integers(-1, i - 1))       # -1: world
    b = dict(name='b%d' % i, parent=parent, pos=[draw(num(-0.5, 0.5)) for _ in range(3)], quat=draw(mg.unit_quat()),
             childclass=draw(st.sampled_from([None] + [c['name'] for c in classes])) if classes else None,
             frame=None, geoms=[], joints=[], sites=[], gravcomp=draw(num(0, 1, 1)) if draw(st.integers(0, 4)) == 0 else 0)
    if draw(st.integers(0, 2)) == 0:
      b['frame'] = dict(pos=[draw(num(-0.3, 0.3)) for _ in range(3)], quat=draw(mg.unit_quat()),
                        name='fb%d' % i if draw(st.booleans()) else None)
    nj = draw(st.integers(0, 2))
    hasball = False
    for k in range(nj):
      jt = draw(st.sampled_from([t for t in JOINTS if not (hasball and t in ('ball', 'hinge'))] or ['slide']))
      hasball = hasball or jt == 'ball'
      ax = [draw(st.integers(-2, 2)) for _ in range(3)]
      if not any(ax):
        ax = [0, 0, 1]
      b['joints'].append(dict(name='j%d_%d' % (i, k), type=jt, axis=ax, pos=[draw(num(-0.2, 0.2)) for _ in range(3)],
                              damping=draw(num(0, 2)) if draw(st.booleans()) else None,
                              range=[-draw(num(0.1, 1.5)), draw(num(0.1, 1.5))] if jt != 'ball' and draw(st.integers(0, 2)) == 0
                              else None,
                              cls=draw(st.sampled_from([None] + [c['name'] for c in classes])) if classes else None))
    ng = draw(st.integers(1, 2))
    for k in range(ng):
      gt = draw(st.sampled_from(GEOMS))
      nsz = dict(sphere=1, capsule=2, cylinder=2).get(gt, 3)      # unused size components stay 0 (they are not saved)
      g = dict(name='g%d_%d' % (i, k), type=gt, size=[draw(num(0.03, 0.3)) if q < nsz else 0 for q in range(3)],
               pos=[draw(num(-0.2, 0.2)) for _ in range(3)], quat=draw(mg.unit_quat()),
               cls=draw(st.sampled_from([None] + [c['name'] for c in classes])) if classes else None,
               density=draw(num(100, 3000, 0)) if draw(st.booleans()) else None,
               friction=[draw(num(0.1, 1.5)), 0.005, 0.0001] if draw(st.integers(0, 2)) == 0 else None,
               frame=None)
      # a framed geom followed by an unframed sibling is the known writer reordering (C32 finding): keep it rare
      if draw(st.integers(0, 3)) == 0 and (k == ng - 1 or (unsafe_order and draw(st.integers(0, 3)) == 0)):
        g['frame'] = dict(pos=[draw(num(-0.3, 0.3)) for _ in range(3)], quat=draw(mg.unit_quat()), name=None)
        if k < ng - 1:
          unsafe = True
      b['geoms'].append(g)
    if draw(st.booleans()):
      b['sites'].append(dict(name='s%d' % i, pos=[draw(num(-0.2, 0.2)) for _ in range(3)], quat=draw(mg.unit_quat()),
                             cls=draw(st.sampled_from([None] + [c['name'] for c in classes])) if classes else None))
    bodies.append(b)
  opt = dict(timestep=draw(num(0.0005, 0.01, 4)), gravity=[0, 0, draw(num(-10, 0, 1))],
             integrator=draw(st.integers(0, 3)), degree=draw(st.booleans()))
  labels = ['specapi']
  if classes:
    labels.append('specapi:default-class')
  if any(c['parent'] >= 0 for c in classes):
    labels.append('specapi:default-nested')
  if any(b['frame'] for b in bodies) or any(g['frame'] for b in bodies for g in b['geoms']):
    labels.append('specapi:frame')
  if any(b['childclass'] for b in bodies):
    labels.append('specapi:childclass')
  hasframe = any(b['frame'] for b in bodies) or any(g['frame'] for b in bodies for g in b['geoms'])
  if unsafe:
    labels.append('frame-order-unsafe')
  unsafe = hasframe      # the known reordering needs a frame; the check still demands 'same objects, different order'
  return dict(classes=classes, bodies=bodies, opt=opt, labels=labels, unsafe=unsafe)


def _S(lib, kind, ptr):
  if not ptr:
    raise RuntimeError('harness: mjs_add* returned NULL for ' + kind)
  return Struct(lib, kind, ptr)


def build(lib, prog):
  E = lib.enums
  s = lib.mj_makeSpec()
  spec = Struct(lib, 'mjSpec', s)
  spec.option.timestep = prog['opt']['timestep']
  spec.option.gravity = prog['opt']['gravity']
  spec.option.integrator = prog['opt']['integrator']
  spec.compiler.degree = 1 if prog['opt']['degree'] else 0
  main = lib.mjs_getSpecDefault(s)
  defs = {}
  for c in prog['classes']:
    parent = main if c['parent'] < 0 else defs[prog['classes'][c['parent']]['name']]
    d = lib.mjs_addDefault(s, c['name'], parent)
    if not d:
      raise RuntimeError('harness: mjs_addDefault failed')
    defs[c['name']] = d
    D = Struct(lib, 'mjsDefault', d)
    g = Struct(lib, 'mjsGeom', D.geom)
    if c['geom_friction']:
      g.friction = c['geom_friction']
    if c['geom_rgba']:
      g.rgba = c['geom_rgba']
    if c['geom_margin'] is not None:
      g.margin = c['geom_margin']
    j = Struct(lib, 'mjsJoint', D.joint)
    if c['joint_damping'] is not None:
      j.damping = [c['joint_damping'], 0, 0]
    if c['joint_armature'] is not None:
      j.armature = c['joint_armature']
    if c['site_size'] is not None:
      Struct(lib, 'mjsSite', D.site).size = [c['site_size'], 0.005, 0.005]
  world = lib.mjs_findBody(s, 'world')
  handles = []
  gtype = dict(sphere=E.mjGEOM_SPHERE, capsule=E.mjGEOM_CAPSULE, ellipsoid=E.mjGEOM_ELLIPSOID,
               cylinder=E.mjGEOM_CYLINDER, box=E.mjGEOM_BOX)
  jtype = dict(hinge=E.mjJNT_HINGE, slide=E.mjJNT_SLIDE, ball=E.mjJNT_BALL)

  def mkframe(parent_body, fr):
    f = _S(lib, 'mjsFrame', lib.mjs_addFrame(parent_body, None))
    f.pos = fr['pos']
    f.quat = fr['quat']
    if fr.get('name'):
      lib.mjs_setName(f.element, fr['name'])
    return f

  for b in prog['bodies']:
    parent = world if b['parent'] < 0 else handles[b['parent']]
    B = _S(lib, 'mjsBody', lib.mjs_addBody(parent, None))
    handles.append(B.ptr)
    lib.mjs_setName(B.element, b['name'])
    B.pos = b['pos']
    B.quat = b['quat']
    if b['gravcomp']:
      B.gravcomp = b['gravcomp']
    if b['childclass']:
      lib.mjs_setString(B.childclass, b['childclass'])
    if b['frame']:
      f = mkframe(parent, b['frame'])
      if lib.mjs_setFrame(B.element, f.ptr) != 0:
        raise RuntimeError('harness: mjs_setFrame(body) failed')
    for j in b['joints']:
      J = _S(lib, 'mjsJoint', lib.mjs_addJoint(B.ptr, defs.get(j['cls']) if j['cls'] else None))
      lib.mjs_setName(J.element, j['name'])
      J.type = jtype[j['type']]
      J.axis = j['axis']
      J.pos = j['pos']
      if j['damping'] is not None:
        J.damping = [j['damping'], 0, 0]
      if j['range']:
        J.range = j['range'] if not prog['opt']['degree'] or j['type'] == 'slide' else [math.degrees(x) for x in j['range']]
    for g in b['geoms']:
      G = _S(lib, 'mjsGeom', lib.mjs_addGeom(B.ptr, defs.get(g['cls']) if g['cls'] else None))
      lib.mjs_setName(G.element, g['name'])
      G.type = gtype[g['type']]
      G.size = g['size']
      G.pos = g['pos']
      G.quat = g['quat']
      if g['density'] is not None:
        G.density = g['density']
      if g['friction']:
        G.friction = g['friction']
      if g['frame']:
        f = mkframe(B.ptr, g['frame'])
        if lib.mjs_setFrame(G.element, f.ptr) != 0:
          raise RuntimeError('harness: mjs_setFrame(geom) failed')
    for t in b['sites']:
      T = _S(lib, 'mjsSite', lib.mjs_addSite(B.ptr, defs.get(t['cls']) if t['cls'] else None))
      lib.mjs_setName(T.element, t['name'])
      T.pos = t['pos']
      T.quat = t['quat']
  return s
