"""Run cases in forked children so that a crash (sanitizer abort, signal, timeout) of the code under test is attributed
to one case and does not end the run.

  for item, status, payload in isolate.run(fn, items, timeout=20, asan_log='/verif/work/asan/C31'):
      fn(item, note) runs in the child; note('stage') records progress that survives a crash.
      status: 'ok' (payload = fn(...), must be JSON-able), 'crash' (payload = dict(rc=, signal=, report=str, note=)),
              'timeout' (payload = dict(note=)), 'exc' (payload = traceback text of a Python exception inside fn)

The parent must be single-threaded when calling (Python + ctypes library is).  Children leave through os._exit.
Items are run in order; after a crash the remaining items continue in a fresh child.
"""
import json
import os
import signal
import sys
import traceback


def _read_report(asan_log, pid):
  if not asan_log:
    return ''
  p = '%s.%d' % (asan_log, pid)
  try:
    with open(p, errors='replace') as f:
      txt = f.read()
    os.unlink(p)
    return txt
  except OSError:
    return ''


def run(fn, items, timeout=30, asan_log=None):
  items = list(items)
  start = 0
  while start < len(items):
    r, w = os.pipe()
    sys.stdout.flush()
    sys.stderr.flush()
    pid = os.fork()
    if pid == 0:
      # ---- child
      try:
        os.close(r)
        out = os.fdopen(w, 'w')
        for i in range(start, len(items)):
          out.write(json.dumps(dict(i=i, start=1)) + '\n')
          out.flush()
          signal.alarm(int(timeout))
          def note(text, _i=i):
            out.write(json.dumps(dict(i=_i, note=text)) + '\n')
            out.flush()
          try:
            res = fn(items[i], note)
            rec = dict(i=i, res=res)
          except BaseException:
            rec = dict(i=i, exc=traceback.format_exc()[-3000:])
          signal.alarm(0)
          out.write(json.dumps(rec) + '\n')
          out.flush()
        out.close()
      finally:
        os._exit(0)
    # ---- parent
    os.close(w)
    started = None
    lastnote = None
    done = {}
    with os.fdopen(r, 'r') as inp:
      for line in inp:
        try:
          rec = json.loads(line)
        except ValueError:
          continue
        if 'start' in rec:
          started = rec['i']
          lastnote = None
        elif 'note' in rec:
          lastnote = rec['note']
        else:
          done[rec['i']] = rec
    _, status = os.waitpid(pid, 0)
    i = start
    while i in done:
      rec = done[i]
      if 'exc' in rec:
        yield items[i], 'exc', rec['exc']
      else:
        yield items[i], 'ok', rec['res']
      i += 1
    if i >= len(items):
      _read_report(asan_log, pid)
      return
    # child ended before finishing item i
    sig = os.WTERMSIG(status) if os.WIFSIGNALED(status) else None
    rc = os.WEXITSTATUS(status) if os.WIFEXITED(status) else None
    report = _read_report(asan_log, pid)
    if started is None or started < i:
      # died between cases (should not happen): attribute to the next item
      pass
    if sig == signal.SIGALRM:
      yield items[i], 'timeout', dict(note=lastnote)
    else:
      yield items[i], 'crash', dict(rc=rc, signal=sig, report=report[:6000], note=lastnote)
    start = i + 1


def innermost_frame(report, repo_markers=('/src/', '/plugin/'), skip=('libclang_rt', 'compiler-rt', 'libc.so', 'ld-linux',
                                                                   'sanitizer_common', '/asan/')):
  """(kind, function, location) of a sanitizer report: first stack frame of the first stack that is not runtime/libc."""
  import re
  kind = 'unknown'
  m = re.search(r'ERROR: AddressSanitizer: ([\w-]+)', report)
  if m:
    kind = m.group(1)
  elif 'runtime error:' in report:
    kind = 'ubsan'
  for line in report.split('\n'):
    m = re.match(r'\s*#\d+ 0x[0-9a-f]+ in (\S+) (.*)', line)
    if not m:
      continue
    fn, loc = m.group(1), m.group(2)
    if any(s in loc for s in skip) or fn.startswith(('__asan', '__interceptor', '__sanitizer')):
      continue
    return kind, fn, loc.strip()
  return kind, '?', '?'
