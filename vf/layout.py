"""Struct layout database obtained from clang (-fdump-record-layouts) on the tree's headers."""
import json
import os
import re
import subprocess

from . import build as vb

STRUCTS = ['mjModel', 'mjData', 'mjContact', 'mjOption', 'mjVisual', 'mjStatistic', 'mjvScene', 'mjvOption',
           'mjvGeom', 'mjvCamera', 'mjvPerturb', 'mjvLight', 'mjvFigure', 'mjLROpt', 'mjSpec', 'mjsBody', 'mjsGeom',
           'mjsJoint', 'mjsSite', 'mjsCamera', 'mjsLight', 'mjsFrame', 'mjsMesh', 'mjsActuator', 'mjsSensor',
           'mjsTendon', 'mjsEquality', 'mjsKey', 'mjsDefault', 'mjsCompiler', 'mjsOrientation', 'mjsElement',
           'mjpPlugin', 'mjResource', 'mjpResourceProvider', 'mjWarningStat', 'mjTimerStat', 'mjSolverStat',
           'mjsPair', 'mjsExclude', 'mjsPlugin', 'mjsMaterial', 'mjsTexture', 'mjsHField', 'mjsNumeric', 'mjsText',
           'mjsTuple', 'mjsWrap', 'mjsFlex', 'mjsSkin', 'mjTask', 'mjThreadPool', 'mjLogMessage', 'mjpDecoder',
           'mjpEncoder', 'mjsInertial']

PRIM = {
    'mjtNum': ('f8', 8), 'double': ('f8', 8), 'float': ('f4', 4), 'int': ('i4', 4), 'unsigned int': ('u4', 4),
    'mjtByte': ('u1', 1), 'mjtBool': ('u1', 1), 'unsigned char': ('u1', 1), 'char': ('i1', 1), 'size_t': ('u8', 8),
    'mjtSize': ('i8', 8), 'uintptr_t': ('u8', 8), 'uint64_t': ('u8', 8), 'int64_t': ('i8', 8), '_Bool': ('u1', 1),
    'bool': ('u1', 1), 'unsigned long': ('u8', 8), 'long': ('i8', 8), 'short': ('i2', 2),
}


def _typeinfo(t):
  """Return (np_code, elemsize, shape) or ('ptr',8,()) or None for nested struct."""
  t = t.strip()
  if t.endswith('*') or '(*)' in t:
    return ('u8', 8, (), True)
  m = re.match(r'^(.*?)((\[\d+\])+)$', t)
  shape = ()
  if m:
    t = m.group(1).strip()
    shape = tuple(int(x) for x in re.findall(r'\[(\d+)\]', m.group(2)))
  t = t.replace('const ', '')
  if t in PRIM:
    return (PRIM[t][0], PRIM[t][1], shape, False)
  if re.match(r'^(enum )?mjt[A-Z]\w*$', t):
    return ('i4', 4, shape, False)
  return None


def _parse(text):
  recs = {}
  blocks = text.split('*** Dumping AST Record Layout')
  for b in blocks:
    lines = [l for l in b.split('\n') if '|' in l]
    if not lines:
      continue
    head = lines[0].split('|', 1)[1].strip()
    name = head.replace('struct ', '').replace('union ', '').strip()
    mm = re.search(r'\[sizeof=(\d+)', b)
    if not mm:
      continue
    size = int(mm.group(1))
    fields = []
    stack = []  # (indent, prefix)
    for l in lines[1:]:
      off, rest = l.split('|', 1)
      off = off.strip()
      if not off or rest.strip().startswith('['):
        continue
      off = off.split(':')[0]
      try:
        off = int(off)
      except ValueError:
        continue
      indent = len(rest) - len(rest.lstrip(' '))
      body = rest.strip()
      # last token is the name
      parts = body.rsplit(' ', 1)
      if len(parts) != 2:
        continue
      typ, fname = parts
      while stack and stack[-1][0] >= indent:
        stack.pop()
      prefix = ''.join(p for _, p in stack)
      fields.append((prefix + fname, off, typ))
      stack.append((indent, fname + '.'))
    recs[name] = dict(size=size, fields=fields)
  return recs


def load(repo=None):
  repo = repo or vb.REPO
  hd = vb.header_digest(repo)
  gen = os.path.join(vb.CACHE, 'gen')
  os.makedirs(gen, exist_ok=True)
  path = os.path.join(gen, 'layout_%s.json' % hd[:16])
  if os.path.exists(path):
    with open(path) as f:
      return json.load(f)
  src = '#include <mujoco/mujoco.h>\n#include <mujoco/mjplugin.h>\n' + ''.join(
      '_Static_assert(sizeof(%s) > 0, "");\n' % s for s in STRUCTS)
  # drop structs that do not exist in this tree
  hdrtext = ''
  for h in sorted(os.listdir(os.path.join(repo, 'include/mujoco'))):
    if not h.endswith('.h'):
      continue
    hdrtext += open(os.path.join(repo, 'include/mujoco', h), errors='replace').read()
  src = '#include <mujoco/mujoco.h>\n#include <mujoco/mjplugin.h>\n' + ''.join(
      '_Static_assert(sizeof(%s) > 0, "");\n' % s for s in STRUCTS if re.search(r'\b%s\b' % s, hdrtext))
  p = subprocess.run(['clang', '-x', 'c', '-std=c11', '-I' + os.path.join(repo, 'include'), '-Xclang',
                      '-fdump-record-layouts', '-fsyntax-only', '-'], input=src, capture_output=True, text=True)
  if p.returncode != 0:
    raise vb.BuildError('layout dump failed: ' + p.stderr[-2000:])
  recs = _parse(p.stdout)
  out = {}
  for name, r in recs.items():
    if not name.startswith('mj'):
      continue
    key = name[:-1] if name.endswith('_') else name
    flds = {}
    for fname, off, typ in r['fields']:
      ti = _typeinfo(typ)
      if ti is None:
        flds[fname] = dict(off=off, struct=typ.replace('struct ', '').strip())
      else:
        flds[fname] = dict(off=off, np=ti[0], esize=ti[1], shape=list(ti[2]), ptr=ti[3], ctype=typ)
    out[key] = dict(size=r['size'], fields=flds)
  tmp = path + '.tmp%d' % os.getpid()
  with open(tmp, 'w') as f:
    json.dump(out, f)
  os.replace(tmp, path)
  return out
