"""ctypes binding to the verification build of the tree's libmujoco.

  lib = mj.load('rel')                 # builds from /repo (or VERIF_REPO) if needed
  m = lib.model_from_xml(xml_text)     # -> Model (raises MjError with the compiler message)
  d = lib.make_data(m)                 # -> Data
  lib.mj_step(m, d)                    # guarded call: mju_error -> MjError
  m.nq, m.opt.timestep, m.body_mass    # sizes, nested structs, numpy views
  d.qpos, d.time, d.contact            # numpy views (contact: structured array)

Every MJAPI function of include/mujoco/mujoco.h and src/engine/*.h is callable as lib.<name>(...).
Arguments: Model/Data/Struct objects, numpy arrays (C-contiguous, matching dtype), bytes/str, ints, floats, None.
"""
import ctypes
import json
import os
import sys

import numpy as np

from . import build as vb
from . import genwrap
from . import layout as vlayout

C = ctypes
_CT = {n: getattr(C, n) for n in ('c_int', 'c_uint', 'c_double', 'c_float', 'c_ubyte', 'c_int64', 'c_size_t',
                                   'c_uint64', 'c_char', 'c_bool', 'c_void_p', 'c_char_p', 'c_long', 'c_int32',
                                   'c_uint32', 'c_ulong', 'c_short')}
_NPT = {'mjtNum': np.float64, 'double': np.float64, 'float': np.float32, 'int': np.int32, 'mjtByte': np.uint8,
        'mjtBool': np.uint8, 'unsigned char': np.uint8, 'mjtSize': np.int64, 'size_t': np.uint64,
        'uintptr_t': np.uint64, 'char': np.uint8, 'unsigned int': np.uint32, 'uint64_t': np.uint64}


class MjError(Exception):
  pass


class HarnessError(Exception):
  pass


def _addr(x):
  if x is None:
    return None
  if isinstance(x, (Model, Data, Struct)):
    return x.ptr
  if isinstance(x, np.ndarray):
    if not x.flags['C_CONTIGUOUS']:
      raise HarnessError('non-contiguous array passed to C')
    return x.ctypes.data
  if isinstance(x, (bytes, bytearray)):
    return x
  if isinstance(x, str):
    return x.encode()
  if isinstance(x, C.Array) or isinstance(x, C._Pointer) or isinstance(x, C.c_void_p):
    return x
  return x


class Struct:
  """View of a C struct at an address, fields resolved from the clang layout DB."""
  __slots__ = ('_lib', '_name', 'ptr', '_prefix', '_keep')

  def __init__(self, lib, name, ptr, prefix='', keep=None):
    object.__setattr__(self, '_lib', lib)
    object.__setattr__(self, '_name', name)
    object.__setattr__(self, 'ptr', ptr)
    object.__setattr__(self, '_prefix', prefix)
    object.__setattr__(self, '_keep', keep)

  def _field(self, key):
    rec = self._lib.layout[self._name]
    f = rec['fields'].get(self._prefix + key)
    if f is None:
      raise AttributeError('%s has no field %s' % (self._name, self._prefix + key))
    return f

  def __getattr__(self, key):
    f = self._field(key)
    if 'struct' in f:
      sn = f['struct']
      if sn.endswith(']'):   # array of structs, e.g. 'mjWarningStat[7]' -> structured numpy view
        import re as _re
        base = sn[:sn.index('[')].strip()
        dims = tuple(int(x) for x in _re.findall(r'\[(\d+)\]', sn))
        base = base[:-1] if base.endswith('_') else base
        dt = self._lib.struct_dtype(base)
        n = int(np.prod(dims))
        buf = (C.c_char * (n * dt.itemsize)).from_address(self.ptr + f['off'])
        return np.frombuffer(buf, dtype=dt).reshape(dims)
      return Struct(self._lib, self._name, self.ptr, self._prefix + key + '.', self._keep)
    a = self.ptr + f['off']
    if f['shape']:
      n = int(np.prod(f['shape']))
      buf = (C.c_char * (n * f['esize'])).from_address(a)
      return np.frombuffer(buf, dtype=f['np']).reshape(f['shape'])
    buf = (C.c_char * f['esize']).from_address(a)
    v = np.frombuffer(buf, dtype=f['np'])[0]
    return v.item()

  def __setattr__(self, key, val):
    f = self._field(key)
    if 'struct' in f:
      raise AttributeError('cannot assign nested struct')
    a = self.ptr + f['off']
    if f['shape']:
      getattr(self, key)[...] = val
      return
    buf = (C.c_char * f['esize']).from_address(a)
    np.frombuffer(buf, dtype=f['np'])[0] = val

  def fields(self):
    rec = self._lib.layout[self._name]
    return [k[len(self._prefix):] for k in rec['fields'] if k.startswith(self._prefix)]


def _view(ptr, nr, nc, ctype, lib):
  if ctype in _NPT:
    dt = np.dtype(_NPT[ctype])
  elif ctype in lib.layout:
    dt = lib.struct_dtype(ctype)
  else:
    raise HarnessError('unknown element type ' + ctype)
  n = nr * nc
  shape = (nr,) if nc == 1 else (nr, nc)
  if n == 0 or not ptr:
    return np.zeros(shape, dtype=dt)
  buf = (C.c_char * (n * dt.itemsize)).from_address(ptr)
  return np.frombuffer(buf, dtype=dt).reshape(shape)


class Model(Struct):
  __slots__ = ('_own',)

  def __init__(self, lib, ptr, own=True):
    Struct.__init__(self, lib, 'mjModel', ptr)
    object.__setattr__(self, '_own', own)

  def __getattr__(self, key):
    lib = self._lib
    if key in lib.model_fields:
      r = lib.model_field(self, key)
      return _view(r[0], r[1], r[2], r[3], lib)
    return Struct.__getattr__(self, key)

  def __setattr__(self, key, val):
    if key in self._lib.model_fields:
      getattr(self, key)[...] = val
      return
    Struct.__setattr__(self, key, val)

  def __del__(self):
    try:
      if self._own and self.ptr:
        self._lib.raw.mj_deleteModel(C.c_void_p(self.ptr))
    except Exception:
      pass

  def name(self, objtype, i):
    return self._lib.mj_id2name(self, objtype, i)


class Data(Struct):
  __slots__ = ('model', '_own')

  def __init__(self, lib, model, ptr, own=True):
    Struct.__init__(self, lib, 'mjData', ptr)
    object.__setattr__(self, 'model', model)
    object.__setattr__(self, '_own', own)

  def __getattr__(self, key):
    lib = self._lib
    if key in lib.data_fields or key in lib.arena_fields:
      r = lib.data_field(self.model, self, key)
      return _view(r[0], r[1], r[2], r[3], lib)
    return Struct.__getattr__(self, key)

  def __setattr__(self, key, val):
    if key in self._lib.data_fields or key in self._lib.arena_fields:
      getattr(self, key)[...] = val
      return
    Struct.__setattr__(self, key, val)

  def __del__(self):
    try:
      if self._own and self.ptr:
        self._lib.raw.mj_deleteData(C.c_void_p(self.ptr))
    except Exception:
      pass


class _Fn:
  def __init__(self, lib, name, sig):
    self.lib = lib
    self.name = name
    self.sig = sig
    g = getattr(lib.raw, 'vfg_' + name)
    self.has_ret = sig['ret'] != 'void'
    at = []
    if self.has_ret:
      at.append(C.c_void_p)
    for ct in sig['param_ct']:
      at.append(_CT[ct])
    g.argtypes = at
    g.restype = C.c_int
    self.g = g
    self.rct = _CT[sig['ret_ct']] if self.has_ret else None

  def __call__(self, *args):
    if len(args) != len(self.sig['params']):
      raise HarnessError('%s expects %d args, got %d' % (self.name, len(self.sig['params']), len(args)))
    conv = [_addr(a) for a in args]
    if self.has_ret:
      r = self.rct()
      rc = self.g(C.byref(r), *conv)
    else:
      rc = self.g(*conv)
    if rc:
      raise MjError(self.lib.raw.vf_last_error().decode(errors='replace'))
    if self.has_ret:
      v = r.value
      if self.rct is C.c_char_p and v is not None:
        return v.decode(errors='replace')
      return v
    return None


class Lib:
  def __init__(self, variant='rel', repo=None):
    self.variant = variant
    self.repo = repo or vb.REPO
    self.path = vb.build(variant, self.repo)
    with open(self.path + '.json') as f:
      self.sigs = json.load(f)
    self.layout = vlayout.load(self.repo)
    self.raw = C.CDLL(self.path, mode=C.RTLD_GLOBAL)
    r = self.raw
    r.vf_last_error.restype = C.c_char_p
    r.vf_warning_text.restype = C.c_char_p
    r.vf_warning_text.argtypes = [C.c_int]
    for n in ('vf_model_field_name', 'vf_data_field_name', 'vf_arena_field_name', 'vf_model_size_name'):
      getattr(r, n).restype = C.c_char_p
      getattr(r, n).argtypes = [C.c_int]
    r.vf_model_field.argtypes = [C.c_void_p, C.c_char_p] + [C.c_void_p] * 4
    r.vf_data_field.argtypes = [C.c_void_p, C.c_void_p, C.c_char_p] + [C.c_void_p] * 4
    r.vf_model_size.restype = C.c_long
    r.vf_model_size.argtypes = [C.c_void_p, C.c_char_p]
    r.mj_deleteModel.argtypes = [C.c_void_p]
    r.mj_deleteData.argtypes = [C.c_void_p]
    r.vf_fault_enable.argtypes = [C.c_long, C.c_long, C.c_long]
    for n in ('vf_fault_count', 'vf_fault_live', 'vf_fault_failed'):
      getattr(r, n).restype = C.c_long
    r.vf_install()

    def names(fn):
      out = []
      i = 0
      while True:
        s = fn(i)
        if s is None:
          break
        out.append(s.decode())
        i += 1
      return out
    self.model_fields = names(r.vf_model_field_name)
    self.data_fields = names(r.vf_data_field_name)
    self.arena_fields = names(r.vf_arena_field_name)
    self.model_sizes = names(r.vf_model_size_name)
    self._model_fields_set = set(self.model_fields)
    self._fn = {}
    self._dt = {}
    self.enums = _Enums(self.repo)

  def __getattr__(self, name):
    fn = self.__dict__['_fn'].get(name)
    if fn is None:
      sig = self.sigs.get(name)
      if sig is None:
        raise AttributeError('no MJAPI function ' + name)
      fn = _Fn(self, name, sig)
      self._fn[name] = fn
    return fn

  # ---- reflection
  def model_field(self, m, name):
    p = C.c_void_p(); nr = C.c_long(); nc = C.c_long(); ct = C.c_char_p()
    ok = self.raw.vf_model_field(m.ptr, name.encode(), C.byref(p), C.byref(nr), C.byref(nc), C.byref(ct))
    if not ok:
      raise HarnessError('no model field ' + name)
    return (p.value or 0, nr.value, nc.value, ct.value.decode())

  def data_field(self, m, d, name):
    p = C.c_void_p(); nr = C.c_long(); nc = C.c_long(); ct = C.c_char_p()
    ok = self.raw.vf_data_field(m.ptr, d.ptr, name.encode(), C.byref(p), C.byref(nr), C.byref(nc), C.byref(ct))
    if not ok:
      raise HarnessError('no data field ' + name)
    return (p.value or 0, nr.value, nc.value, ct.value.decode())

  def struct_dtype(self, name):
    dt = self._dt.get(name)
    if dt is None:
      rec = self.layout[name]
      names, fmts, offs = [], [], []
      for k, f in rec['fields'].items():
        if 'struct' in f or '.' in k:
          if 'struct' in f:
            continue
        names.append(k)
        if f['shape']:
          fmts.append((f['np'], tuple(f['shape'])))
        else:
          fmts.append(f['np'])
        offs.append(f['off'])
      dt = np.dtype(dict(names=names, formats=fmts, offsets=offs, itemsize=rec['size']))
      self._dt[name] = dt
    return dt

  def new_struct(self, name):
    """Allocate a zeroed struct owned by Python."""
    size = self.layout[name]['size']
    buf = C.create_string_buffer(size)
    return Struct(self, name, C.addressof(buf), keep=buf)

  # ---- warnings
  def warnings(self, clear=True):
    n = self.raw.vf_warning_count()
    out = [self.raw.vf_warning_text(i).decode(errors='replace') for i in range(n)]
    if clear:
      self.raw.vf_warning_clear()
    return out

  # ---- convenience constructors
  def parse_xml(self, xml, vfs=None):
    """-> spec pointer (int). Raises MjError(message) when parsing fails."""
    if isinstance(xml, str):
      xml = xml.encode()
    err = C.create_string_buffer(2000)
    s = self.mj_parseXMLString(xml, vfs, err, 2000)
    if not s:
      raise MjError('parse: ' + err.value.decode(errors='replace'))
    return s

  def compile_spec(self, spec, vfs=None):
    p = self.mj_compile(spec, vfs)
    if not p:
      msg = self.mjs_getError(spec)
      raise MjError('compile: ' + (msg or ''))
    return Model(self, p)

  def model_from_xml(self, xml, keep_spec=False):
    s = self.parse_xml(xml)
    try:
      m = self.compile_spec(s)
    except MjError:
      self.mj_deleteSpec(s)
      raise
    if keep_spec:
      return m, s
    self.mj_deleteSpec(s)
    return m

  def model_from_file(self, path):
    err = C.create_string_buffer(2000)
    p = self.mj_loadXML(path, None, err, 2000)
    if not p:
      raise MjError('load: ' + err.value.decode(errors='replace'))
    return Model(self, p)

  def make_data(self, m):
    p = self.mj_makeData(m)
    if not p:
      raise MjError('mj_makeData returned NULL')
    return Data(self, m, p)

  def copy_data(self, m, d):
    p = self.mj_copyData(None, m, d)
    if not p:
      raise MjError('mj_copyData returned NULL')
    return Data(self, m, p)

  def copy_model(self, m):
    p = self.mj_copyModel(None, m)
    if not p:
      raise MjError('mj_copyModel returned NULL')
    return Model(self, p)

  def save_xml(self, spec, precision=None, size=4_000_000):
    if precision is not None:
      self.raw._mjPRIVATE__set_xml_precision(int(precision))
    buf = C.create_string_buffer(size)
    err = C.create_string_buffer(2000)
    rc = self.mj_saveXMLString(spec, buf, size, err, 2000)
    if rc != 0:
      raise MjError('save: rc=%d %s' % (rc, err.value.decode(errors='replace')))
    return buf.value.decode(errors='replace')

  def fullM(self, m, d):
    nv = m.nv
    M = np.zeros((nv, nv))
    self.mj_fullM(m, d, M)
    return M


class _Enums:
  """Enum constants and numeric #defines of the tree's public headers, evaluated by the C compiler."""

  def __init__(self, repo):
    import re
    import subprocess
    hd = vb.header_digest(repo)
    gen = os.path.join(vb.CACHE, 'gen')
    os.makedirs(gen, exist_ok=True)
    path = os.path.join(gen, 'enums_%s.json' % hd[:16])
    if not os.path.exists(path):
      inames, fnames = [], []
      todo, hs = ['mujoco.h', 'mjplugin.h'], []
      while todo:
        h = todo.pop()
        if h in hs or not os.path.exists(os.path.join(repo, 'include/mujoco', h)):
          continue
        hs.append(h)
        todo += re.findall(r'#include\s*[<"]mujoco/(\w+\.h)[>"]', open(os.path.join(repo, 'include/mujoco', h)).read())
      for h in sorted(hs):
        t = open(os.path.join(repo, 'include/mujoco', h), errors='replace').read()
        t = re.sub(r'/\*.*?\*/', '', t, flags=re.S)
        t = re.sub(r'//[^\n]*', '', t)
        for em in re.finditer(r'typedef\s+enum\s+\w+\s*\{(.*?)\}\s*\w+\s*;', t, flags=re.S):
          for item in em.group(1).split(','):
            k = item.split('=')[0].strip()
            if re.match(r'^\w+$', k):
              inames.append(k)
        for dm in re.finditer(r'^\s*#define\s+(mj[A-Z]\w*)\s+(\(?-?[\d.][\w.+-]*\)?)\s*$', t, flags=re.M):
          (fnames if any(c in dm.group(2) for c in '.eE') and not dm.group(2).startswith('0x') else inames).append(dm.group(1))
      src = '#include <stdio.h>\n#include <mujoco/mujoco.h>\n#include <mujoco/mjplugin.h>\nint main(void){\n'
      src += ''.join('printf("%s %%lld\\n", (long long)%s);\n' % (n, n) for n in dict.fromkeys(inames))
      src += ''.join('printf("%s %%.17g\\n", (double)%s);\n' % (n, n) for n in dict.fromkeys(fnames))
      src += 'return 0;}\n'
      exe = os.path.join(gen, 'enums_%s.exe' % hd[:16])
      p = subprocess.run(['clang', '-x', 'c', '-w', '-I' + os.path.join(repo, 'include'), '-o', exe, '-'],
                         input=src, capture_output=True, text=True)
      if p.returncode != 0:
        raise vb.BuildError('enum dump failed: ' + p.stderr[-2000:])
      out = subprocess.run([exe], capture_output=True, text=True).stdout
      os.unlink(exe)
      vals = {}
      for l in out.split('\n'):
        if l.strip():
          k, v = l.split()
          vals[k] = float(v) if k in fnames else int(v)
      with open(path + '.tmp%d' % os.getpid(), 'w') as f:
        json.dump(vals, f)
      os.replace(path + '.tmp%d' % os.getpid(), path)
    with open(path) as f:
      vals = json.load(f)
    self.__dict__.update(vals)
    self._vals = vals


_LIBS = {}


def load(variant='rel', repo=None):
  key = (variant, repo or vb.REPO)
  if key not in _LIBS:
    _LIBS[key] = Lib(variant, repo)
  return _LIBS[key]
