"""Minimal reproducers for the candidate findings met while building C43/C44/C45 (MJX-JAX of this tree).

  cd /verif && PYTHONPATH=/verif /venv/bin/python -m vf.mjx_findings [F1 F3 ...]

Each reproducer prints the value computed by the tree's C engine (ctypes build) and by the tree's MJX for the same
XML and state, or the exception raised by MJX.  The checks exclude these sub-domains by default (C4x_FINDINGS=1
re-enables them, the checks then exit 1).
"""
import sys
import traceback

import numpy as np


def _setup():
  from vf import mjxload
  mujoco, mjx, jax, jp = mjxload.load()
  from vf import mj, gen_mjx as gx
  lib = mj.load('rel')
  np.set_printoptions(precision=9, linewidth=160)
  return mujoco, mjx, jax, jp, lib, gx


def _cmp(env, title, xml, fields, qpos=None, qvel=None, ctrl=None, act=None, mocap_pos=None, step=False, impl=()):
  mujoco, mjx, jax, jp, lib, gx = env
  c = gx.build(lib, xml)
  tm = c.tm
  td = lib.make_data(tm)
  rep = {}
  for name, val in (('qpos', qpos), ('qvel', qvel), ('ctrl', ctrl), ('act', act), ('mocap_pos', mocap_pos)):
    if val is not None:
      getattr(td, name)[...] = val
      rep[name] = jp.asarray(np.array(getattr(td, name)))
  dx = c.dx0.replace(**rep)
  if step:
    lib.mj_step(tm, td)
    dx = jax.jit(mjx.step)(c.mx, dx)
  else:
    lib.mj_forward(tm, td)
    dx = jax.jit(mjx.forward)(c.mx, dx)
  print('== ' + title)
  for f in fields:
    a = np.asarray(getattr(td, f)).ravel()
    b = np.asarray(getattr(dx._impl, f) if f in impl else getattr(dx, f)).ravel()
    print('   %-18s C engine: %s' % (f, a[:9]))
    print('   %-18s MJX     : %s' % (f, b[:9]))


def _raises(env, title, xml, fn='forward'):
  mujoco, mjx, jax, jp, lib, gx = env
  print('== ' + title)
  mm = mujoco.MjModel.from_xml_string(xml)
  mx = mjx.put_model(mm)
  dx = mjx.make_data(mm)
  try:
    jax.jit(getattr(mjx, fn))(mx, dx)
    print('   no exception')
  except Exception as e:
    tb = [l.strip() for l in traceback.format_exc().split('\n') if 'mjx/_src' in l]
    print('   mjx.%s raised %s: %s   (%s)' % (fn, type(e).__name__, str(e)[:120], tb[-1] if tb else ''))


HINGE = '<body><joint name="j" type="hinge" axis="0 1 0"%s/><geom size=".1" pos=".3 0 0"/><site name="s" pos=".3 0 0"/></body>'


def F1(env):
  _cmp(env, 'F1 connect/weld rows: C subtracts Jdot*v from efc_aref (mj_Jdotv), MJX does not',
       '<mujoco><worldbody><body name="b" pos="0 0 1"><joint type="free"/><geom size=".1"/></body></worldbody>'
       '<equality><connect body1="b" anchor="0.3 0 0"/></equality></mujoco>', ['efc_aref', 'qacc'],
       qvel=[0.3, 0.2, 0.1, 2.0, 1.0, -1.5], impl=('efc_aref',))


def F2(env):
  _raises(env, 'F2 cone=elliptic + constraint rows + no contact slot with condim>1',
          '<mujoco><option cone="elliptic"/><worldbody>' + HINGE % ' range="-30 30" limited="true"' + '</worldbody></mujoco>')


def F3(env):
  _cmp(env, 'F3 forward() returns before sensor_acc when the model has no constraint rows',
       '<mujoco><worldbody>' + HINGE % '' + '</worldbody><sensor><accelerometer site="s"/><framelinacc objtype="site" objname="s"/></sensor></mujoco>',
       ['sensordata', 'qacc'], qvel=[1.0])


def F4(env):
  _cmp(env, 'F4 spring disabled only: MJX zeroes the damper force too',
       '<mujoco><option><flag spring="disable"/></option><worldbody>' + HINGE % ' damping="2" stiffness="3"' + '</worldbody></mujoco>',
       ['qfrc_passive'], qvel=[1.0])
  _cmp(env, 'F4 damper disabled only: MJX zeroes the spring force too',
       '<mujoco><option><flag damper="disable"/></option><worldbody>' + HINGE % ' damping="2" stiffness="3" springref="1"' + '</worldbody></mujoco>',
       ['qfrc_passive'], qvel=[1.0])


def F5(env):
  _cmp(env, 'F5 actearly ignored by MJX (accepted silently)',
       '<mujoco><worldbody>' + HINGE % '' + '</worldbody><actuator><general joint="j" dyntype="integrator" gainprm="2" actearly="true"/></actuator></mujoco>',
       ['actuator_force', 'qfrc_actuator'], ctrl=[1.0], act=[0.5])


def F9(env):
  mujoco, mjx, jax, jp, lib, gx = env
  print('== F9/F8 get_data writes static slot counts into ne/nf/nl; get_data(make_data) reports phantom contacts')
  xml = ('<mujoco><worldbody><geom type="plane" size="1 1 .1"/><body pos="0 0 1"><joint name="j" type="hinge" range="-30 30" limited="true"/>'
         '<geom size=".1"/></body><body pos="1 0 1"><joint name="k" type="slide" range="-1 1" limited="true"/><geom size=".1"/></body>'
         '</worldbody><equality><joint joint1="j" joint2="k" active="false"/></equality></mujoco>')
  mm = mujoco.MjModel.from_xml_string(xml)
  md = mujoco.MjData(mm)
  md.qpos[0] = 1.0
  mujoco.mj_forward(mm, md)
  back = mjx.get_data(mm, mjx.put_data(mm, md))
  print('   original  : ne=%d nf=%d nl=%d nefc=%d ncon=%d' % (md.ne, md.nf, md.nl, md.nefc, md.ncon))
  print('   round trip: ne=%d nf=%d nl=%d nefc=%d ncon=%d' % (back.ne, back.nf, back.nl, back.nefc, back.ncon))
  fresh = mjx.get_data(mm, mjx.make_data(mm))
  print('   get_data(make_data(m)): ncon=%d geom=%s   (MjData(m).ncon=%d)' % (fresh.ncon, fresh.contact.geom.tolist(), mujoco.MjData(mm).ncon))


def F10(env):
  mujoco, mjx, jax, jp, lib, gx = env
  print('== F10 cone=elliptic: all gradients NaN as soon as a contact slot exists (contact 4 units away from active)')
  for cone in ('pyramidal', 'elliptic'):
    xml = ('<mujoco><option cone="%s" iterations="1" ls_iterations="4"/><worldbody><geom type="plane" size="5 5 .1" pos="0 0 -4"/>'
           '<body pos="0 0 .5"><joint type="hinge" axis="0 1 0"/><geom size=".1" pos=".2 0 0"/></body></worldbody></mujoco>' % cone)
    mm = mujoco.MjModel.from_xml_string(xml)
    mx, dx = mjx.put_model(mm), mjx.make_data(mm)
    f = lambda qvel: mjx.step(mx, dx.replace(qvel=qvel)).qvel
    print('   %-9s value %s  jacfwd %s  jacrev %s' % (cone, np.asarray(f(jp.ones(1) * .3)), np.asarray(jax.jacfwd(f)(jp.ones(1) * .3)).ravel(),
                                                     np.asarray(jax.jacrev(f)(jp.ones(1) * .3)).ravel()))


def F11(env):
  _cmp(env, 'F11 implicitfast, standalone free body: C applies the gyroscopic derivative (mjd_freeMhat), MJX does not',
       '<mujoco><option integrator="implicitfast" gravity="0 0 0"/><worldbody><body pos="0 0 1"><joint type="free"/>'
       '<geom type="box" size=".1 .2 .3"/></body></worldbody></mujoco>', ['qvel'], qvel=[0, 0, 0, 3.0, 2.0, 1.0], step=True)


def F12(env):
  _cmp(env, 'F12 implicitfast: deriv_smooth_vel uses the unclamped ctrl of a damper actuator -> M - h*qDeriv indefinite -> NaN',
       '<mujoco><option integrator="implicitfast" timestep="0.008"/><worldbody><body><joint name="j" type="hinge" axis="0 1 0"/>'
       '<geom type="capsule" size=".04 .12" density="800"/></body></worldbody><actuator><damper joint="j" kv="1.7" ctrlrange="0 1.4"/></actuator></mujoco>',
       ['qvel'], ctrl=[-1.9], qvel=[0.3], step=True)


def F13(env):
  _cmp(env, 'F13 implicitfast: C skips the velocity derivative of an actuator clamped by forcerange, MJX does not',
       '<mujoco><option integrator="implicitfast"/><worldbody>' + HINGE % '' + '</worldbody>'
       '<actuator><velocity joint="j" kv="5" forcelimited="true" forcerange="-1 1"/></actuator></mujoco>',
       ['qvel', 'actuator_force'], ctrl=[0.0], qvel=[2.0], step=True)


def F14(env):
  _cmp(env, 'F14 implicitfast, damped tendon across two kinematic trees: C qDeriv keeps tree-local entries only, MJX is dense',
       '<mujoco><option integrator="implicitfast" gravity="0 0 0"/><worldbody><body><joint name="a" type="slide" axis="1 0 0"/><geom size=".1"/></body>'
       '<body pos="0 1 0"><joint name="b" type="slide" axis="1 0 0"/><geom size=".1"/></body></worldbody>'
       '<tendon><fixed damping="20"><joint joint="a" coef="1"/><joint joint="b" coef="-1"/></fixed></tendon></mujoco>',
       ['qvel'], qvel=[1.0, -0.5], step=True)


def F15(env):
  _raises(env, 'F15 touch sensor + constraint rows + no contact slot',
          '<mujoco><worldbody>' + HINGE % ' frictionloss="0.1"' + '</worldbody><sensor><touch site="s"/></sensor></mujoco>')


def F16(env):
  _cmp(env, 'F16 body attached to a mocap body ignores mocap_pos in MJX kinematics',
       '<mujoco><worldbody><body name="m" mocap="true" pos="0 0 1"><geom size=".05" contype="0" conaffinity="0"/>'
       '<body name="c" pos=".2 0 0"><joint type="hinge" axis="0 1 0"/><geom size=".05" contype="0" conaffinity="0"/></body></body></worldbody></mujoco>',
       ['xpos'], mocap_pos=[[0.5, 0.5, 2.0]])


def F17(env):
  _cmp(env, 'F17 actuation disabled: C zeroes actuator_velocity, MJX computes it (actuatorvel sensor differs)',
       '<mujoco><option><flag actuation="disable"/></option><worldbody>' + HINGE % '' + '</worldbody><actuator><motor joint="j" gear="2"/></actuator>'
       '<sensor><actuatorvel actuator="0"/></sensor></mujoco>'.replace('actuator="0"', 'actuator="m"').replace('<motor joint', '<motor name="m" joint'),
       ['sensordata'], qvel=[1.5])


def F18(env):
  mujoco, mjx, jax, jp, lib, gx = env
  print('== F18 capsule-capsule: math.closest_segment_to_segment_points divides by (denom + 1e-6): pos/normal off by ~1e-6..1e-5')
  xml = ('<mujoco><worldbody><geom type="capsule" size=".1 .11" pos="0 0 0" zaxis="2 -1 -1"/><body pos=".12 .05 .1"><joint type="free"/>'
         '<geom type="capsule" size=".13 .03" zaxis="1 2 0.5"/></body></worldbody></mujoco>')
  c = gx.build(lib, xml)
  td = lib.make_data(c.tm)
  lib.mj_forward(c.tm, td)
  dx = jax.jit(mjx.forward)(c.mx, c.dx0)
  print('   C engine: dist=%.15g pos=%s normal=%s' % (td.contact['dist'][0], td.contact['pos'][0], td.contact['frame'][0][:3]))
  print('   MJX     : dist=%.15g pos=%s normal=%s' % (float(dx._impl.contact.dist[0]), np.asarray(dx._impl.contact.pos[0]),
                                                     np.asarray(dx._impl.contact.frame[0][0])))


def F19(env):
  mujoco, mjx, jax, jp, lib, gx = env
  print('== F19 get_data keeps contacts with dist <= 0 only: an active contact inside a positive margin is dropped')
  xml = ('<mujoco><worldbody><geom type="plane" size="1 1 .1" margin="0.05"/><body pos="0 0 0.12"><joint type="free"/><geom size=".1"/></body>'
         '</worldbody></mujoco>')
  mm = mujoco.MjModel.from_xml_string(xml)
  md = mujoco.MjData(mm)
  mujoco.mj_forward(mm, md)
  back = mjx.get_data(mm, mjx.put_data(mm, md))
  print('   original  : ncon=%d dist=%s nefc=%d' % (md.ncon, md.contact.dist.tolist(), md.nefc))
  print('   round trip: ncon=%d dist=%s nefc=%d' % (back.ncon, back.contact.dist.tolist(), back.nefc))


def F20(env):
  mujoco, mjx, jax, jp, lib, gx = env
  print('== F20 (minor) solver.solve never writes solver_niter; nv=0 models raise ValueError in scan')
  xml = '<mujoco><worldbody><geom type="plane" size="1 1 .1"/><body pos="0 0 0.05"><joint type="free"/><geom size=".1"/></body></worldbody></mujoco>'
  mm = mujoco.MjModel.from_xml_string(xml)
  dx = jax.jit(mjx.forward)(mjx.put_model(mm), mjx.make_data(mm))
  md = mujoco.MjData(mm)
  mujoco.mj_forward(mm, md)
  print('   solver_niter MJX=%s  C(wheel)=%s' % (np.asarray(dx._impl.solver_niter), md.solver_niter[:1]))
  _raises(env, 'nv=0', '<mujoco><worldbody><geom size=".1"/></worldbody></mujoco>')


def F23(env):
  mujoco, mjx, jax, jp, lib, gx = env
  print('== F23 C skips collisions between two dof-less bodies (world geom vs mocap-body geom); MJX emits the contact; its rows have R=mjMINVAL (D=1e15) and can stall the MJX solver')
  xml = ('<mujoco><worldbody><geom type="plane" size="1 1 .1"/><body mocap="true" pos="0 0 0.05"><geom type="capsule" size=".06 .1" euler="90 0 0"/></body>'
         '<body pos="1 0 1"><joint type="hinge"/><geom size=".1"/></body></worldbody></mujoco>')
  c = gx.build(lib, xml)
  td = lib.make_data(c.tm)
  lib.mj_forward(c.tm, td)
  dx = jax.jit(mjx.forward)(c.mx, c.dx0)
  cx = dx._impl.contact
  print('   C engine ncon=%d ; MJX active contacts=%d dist=%s' % (int(td.ncon), int(np.sum(np.asarray(cx.dist) < np.asarray(cx.includemargin))),
                                                              np.asarray(cx.dist)))


def F29(env):
  mujoco, mjx, jax, jp, lib, gx = env
  from checks import c43
  print('== F29 spatial tendon with armature: qfrc_bias term armature*J^T*(Jdot v) of MJX differs from the C engine and from finite differences')
  xml = ('<mujoco><option gravity="0 0 0"/><worldbody><site name="w" pos="-0.4 -0.3 -0.4"/><body pos="0 0 0.1"><joint type="free"/>'
         '<geom size=".05" mass="1.7"/><body pos=".12 .1 -.23"><joint type="ball"/><geom type="capsule" size=".05 .1" mass="3"/>'
         '<site name="s" pos=".07 .19 -.07"/></body></body></worldbody>'
         '<tendon><spatial armature="0.08"><site site="s"/><site site="w"/></spatial></tendon></mujoco>')
  c = gx.build(lib, xml)
  tm = c.tm
  rng = np.random.RandomState(3)
  qvel = rng.uniform(-1, 1, tm.nv)
  d = lib.make_data(tm)
  d.qvel[:] = qvel
  lib.mj_forward(tm, d)
  dx = jax.jit(mjx.forward)(c.mx, c.dx0.replace(qvel=jp.asarray(qvel)))
  tm0 = lib.copy_model(tm)
  tm0.tendon_armature[:] = 0
  d0 = lib.make_data(tm0)
  d0.qvel[:] = qvel
  lib.mj_forward(tm0, d0)
  def ten_j(q):
    dd = lib.make_data(tm)
    dd.qpos[:] = q
    lib.mj_forward(tm, dd)
    return c43.c_dense(lib, tm, dd, 'ten_J')[0].copy()
  qp, qm = np.array(d.qpos), np.array(d.qpos)
  lib.mj_integratePos(tm, qp, qvel, 1e-6)
  lib.mj_integratePos(tm, qm, qvel, -1e-6)
  jdv = ((ten_j(qp) - ten_j(qm)) / 2e-6) @ qvel
  print('   C engine  :', np.array(d.qfrc_bias) - np.array(d0.qfrc_bias))
  print('   MJX       :', np.asarray(dx.qfrc_bias) - np.array(d0.qfrc_bias))
  print('   reference :', 0.08 * ten_j(np.array(d.qpos)) * jdv, '(armature * J^T * FD(Jdot v))')


def F25(env):
  mujoco, mjx, jax, jp, lib, gx = env
  print('== F25 get_data corrupts ten_J when a structural entry is exactly zero (dense2sparse drops it, the pattern is static)')
  xml = ('<mujoco><worldbody><body pos="0 0 1"><joint type="free"/><geom size=".1"/><site name="a"/></body>'
         '<body pos="1 0 1"><joint type="free"/><geom size=".1"/><site name="b" pos=".1 .1 0"/></body></worldbody>'
         '<tendon><spatial><site site="a"/><site site="b"/></spatial></tendon></mujoco>')
  mm = mujoco.MjModel.from_xml_string(xml)
  md = mujoco.MjData(mm)
  mujoco.mj_forward(mm, md)
  back = mjx.get_data(mm, mjx.put_data(mm, md))
  print('   colind    :', mm.ten_J_colind)
  print('   original  :', md.ten_J)
  print('   round trip:', back.ten_J)


ALL = [F1, F2, F3, F4, F5, F9, F10, F11, F12, F13, F14, F15, F16, F17, F18, F19, F20, F23, F25, F29]

if __name__ == '__main__':
  env = _setup()
  want = set(sys.argv[1:])
  for f in ALL:
    if not want or f.__name__ in want:
      try:
        f(env)
      except Exception:
        traceback.print_exc()
