"""Probes for the known deviations of this tree's MJX-JAX (found while building C43/C44/C45).

Each probe runs one minimal input through the tree's MJX and through the reference (the tree's C engine via ctypes,
or - for the io.py transfer functions - the MjData it started from) and RETURNS (deviates: bool, detail: str) with an
explicit criterion.  The checks run the probes of their property on every run and report a deviating probe through
ck.violation(detail, case, bucket='known:mjx-Fn', fingerprint=...): listed in /verif/known_findings.json it prints
KNOWN-FINDING, otherwise it is a VIOLATION; a probe that no longer deviates prints nothing.

  cd /verif && PYTHONPATH=/verif /venv/bin/python -m vf.mjx_findings [F1 F3 ...]     # prints every probe's verdict

Criterion unless stated otherwise: a compared array deviates if  max|a-b| / (1 + max(|a|,|b|)) > 1e-6  (identical
algorithms agree to < 1e-12 in float64, see C43) or if MJX returns a non-finite value where the reference is finite.
F14/F21 are C-engine side (kept here as printing-only reproducers, not attached to a property).
"""
import sys
import traceback

import numpy as np

RTOL = 1e-6


def setup():
  from vf import mjxload
  mujoco, mjx, jax, jp = mjxload.load()
  from vf import mj, gen_mjx as gx
  lib = mj.load('rel')
  return mujoco, mjx, jax, jp, lib, gx


def _rel(a, b):
  a = np.asarray(a, dtype=np.float64).ravel()
  b = np.asarray(b, dtype=np.float64).ravel()
  if a.shape != b.shape:
    return float('inf')
  if a.size == 0:
    return 0.0
  if not (np.all(np.isfinite(a)) and np.all(np.isfinite(b))):
    return 0.0 if np.array_equal(a, b, equal_nan=True) else float('inf')
  return float(np.max(np.abs(a - b)) / (1.0 + max(np.max(np.abs(a)), np.max(np.abs(b)))))


def _fmt(x):
  return np.array2string(np.asarray(x, dtype=np.float64).ravel()[:9], precision=9, max_line_width=200)


def _cmp(env, xml, fields, qpos=None, qvel=None, ctrl=None, act=None, mocap_pos=None, step=False, impl=()):
  """Same XML + state through the tree C engine and MJX; deviates if any listed field differs by more than RTOL."""
  mujoco, mjx, jax, jp, lib, gx = env
  c = gx.build(lib, xml)
  tm = c.tm
  td = lib.make_data(tm)
  rep = {}
  for name, val in (('qpos', qpos), ('qvel', qvel), ('ctrl', ctrl), ('act', act), ('mocap_pos', mocap_pos)):
    if val is not None:
      getattr(td, name)[...] = val
      rep[name] = jp.asarray(np.array(getattr(td, name)))
  dx = c.dx0.replace(**rep)
  if step:
    lib.mj_step(tm, td)
    dx = jax.jit(mjx.step)(c.mx, dx)
  else:
    lib.mj_forward(tm, td)
    dx = jax.jit(mjx.forward)(c.mx, dx)
  lib.warnings()
  dev, parts = False, []
  for f in fields:
    a = np.asarray(getattr(td, f)).ravel()
    if f.startswith('efc_'):
      a = a[:int(td.nefc)]
    b = np.asarray(getattr(dx._impl, f) if f in impl else getattr(dx, f)).ravel()
    if f.startswith('efc_'):
      b = b[:a.size]
    e = _rel(a, b)
    if e > RTOL:
      dev = True
    parts.append('%s: C engine %s, MJX %s (rel diff %.3g)' % (f, _fmt(a), _fmt(b), e))
  return dev, ('mj_step' if step else 'mj_forward') + ' vs mjx.' + ('step' if step else 'forward') + ': ' + '; '.join(parts)


def _raises(env, xml, fn='forward'):
  """deviates if mjx.<fn> raises on a model that put_model / make_data accepted."""
  mujoco, mjx, jax, jp, lib, gx = env
  mm = mujoco.MjModel.from_xml_string(xml)
  mx = mjx.put_model(mm)
  dx = mjx.make_data(mm)
  try:
    jax.block_until_ready(jax.jit(getattr(mjx, fn))(mx, dx).qpos)
  except Exception as e:
    tb = [l.strip() for l in traceback.format_exc().split('\n') if 'mjx/_src' in l]
    return True, 'mjx.%s raised %s: %s (%s) on a model accepted by put_model/make_data' % (fn, type(e).__name__, str(e)[:120], tb[-1] if tb else '')
  return False, 'mjx.%s ran without exception' % fn


HINGE = '<body><joint name="j" type="hinge" axis="0 1 0"%s/><geom size=".1" pos=".3 0 0"/><site name="s" pos=".3 0 0"/></body>'
XML = {}

# ------------------------------------------------------------------ C43

XML['F1'] = ('<mujoco><worldbody><body name="b" pos="0 0 1"><joint type="free"/><geom size=".1"/></body></worldbody>'
             '<equality><connect body1="b" anchor="0.3 0 0"/></equality></mujoco>')


def F1(env):
  return _cmp(env, XML['F1'], ['efc_aref', 'qacc'], qvel=[0.3, 0.2, 0.1, 2.0, 1.0, -1.5], impl=('efc_aref',))


XML['F2'] = '<mujoco><option cone="elliptic"/><worldbody>' + HINGE % ' range="-30 30" limited="true"' + '</worldbody></mujoco>'


def F2(env):
  return _raises(env, XML['F2'])


XML['F3'] = ('<mujoco><worldbody>' + HINGE % '' + '</worldbody><sensor><accelerometer site="s"/>'
             '<framelinacc objtype="site" objname="s"/></sensor></mujoco>')


def F3(env):
  return _cmp(env, XML['F3'], ['sensordata'], qvel=[1.0])


XML['F4'] = '<mujoco><option><flag spring="disable"/></option><worldbody>' + HINGE % ' damping="2" stiffness="3"' + '</worldbody></mujoco>'
XML['F4b'] = ('<mujoco><option><flag damper="disable"/></option><worldbody>' + HINGE % ' damping="2" stiffness="3" springref="1"'
              + '</worldbody></mujoco>')


def F4(env):
  d1, t1 = _cmp(env, XML['F4'], ['qfrc_passive'], qvel=[1.0])
  d2, t2 = _cmp(env, XML['F4b'], ['qfrc_passive'], qvel=[1.0])
  return d1 or d2, 'spring disabled only: ' + t1 + ' | damper disabled only: ' + t2


XML['F5'] = ('<mujoco><worldbody>' + HINGE % '' + '</worldbody><actuator><general joint="j" dyntype="integrator" gainprm="2" '
             'actearly="true"/></actuator></mujoco>')


def F5(env):
  return _cmp(env, XML['F5'], ['actuator_force', 'qfrc_actuator'], ctrl=[1.0], act=[0.5])


XML['F11'] = ('<mujoco><option integrator="implicitfast" gravity="0 0 0"/><worldbody><body pos="0 0 1"><joint type="free"/>'
              '<geom type="box" size=".1 .2 .3"/></body></worldbody></mujoco>')


def F11(env):
  return _cmp(env, XML['F11'], ['qvel'], qvel=[0, 0, 0, 3.0, 2.0, 1.0], step=True)


XML['F12'] = ('<mujoco><option integrator="implicitfast" timestep="0.008"/><worldbody><body><joint name="j" type="hinge" axis="0 1 0"/>'
              '<geom type="capsule" size=".04 .12" density="800"/></body></worldbody><actuator><damper joint="j" kv="1.7" '
              'ctrlrange="0 1.4"/></actuator></mujoco>')


def F12(env):
  return _cmp(env, XML['F12'], ['qvel'], ctrl=[-1.9], qvel=[0.3], step=True)


XML['F13'] = ('<mujoco><option integrator="implicitfast"/><worldbody>' + HINGE % '' + '</worldbody>'
              '<actuator><velocity joint="j" kv="5" forcelimited="true" forcerange="-1 1"/></actuator></mujoco>')


def F13(env):
  return _cmp(env, XML['F13'], ['qvel'], ctrl=[0.0], qvel=[2.0], step=True)


XML['F15'] = '<mujoco><worldbody>' + HINGE % ' frictionloss="0.1"' + '</worldbody><sensor><touch site="s"/></sensor></mujoco>'


def F15(env):
  return _raises(env, XML['F15'])


XML['F16'] = ('<mujoco><worldbody><body name="m" mocap="true" pos="0 0 1"><geom size=".05" contype="0" conaffinity="0"/>'
              '<body name="c" pos=".2 0 0"><joint type="hinge" axis="0 1 0"/><geom size=".05" contype="0" conaffinity="0"/></body></body>'
              '</worldbody></mujoco>')


def F16(env):
  return _cmp(env, XML['F16'], ['xpos'], mocap_pos=[[0.5, 0.5, 2.0]])


XML['F17'] = ('<mujoco><option><flag actuation="disable"/></option><worldbody>' + HINGE % '' + '</worldbody>'
              '<actuator><motor name="m" joint="j" gear="2"/></actuator><sensor><actuatorvel actuator="m"/></sensor></mujoco>')


def F17(env):
  return _cmp(env, XML['F17'], ['sensordata'], qvel=[1.5])


XML['F23'] = ('<mujoco><worldbody><geom type="plane" size="1 1 .1"/><body mocap="true" pos="0 0 0.05"><geom type="capsule" size=".06 .1" '
              'euler="90 0 0"/></body><body pos="1 0 1"><joint type="hinge"/><geom size=".1"/></body></worldbody></mujoco>')


def F23(env):
  """deviates if MJX has an active contact (dist < includemargin) for a geom pair for which the C engine has none."""
  mujoco, mjx, jax, jp, lib, gx = env
  c = gx.build(lib, XML['F23'])
  td = lib.make_data(c.tm)
  lib.mj_forward(c.tm, td)
  dx = jax.jit(mjx.forward)(c.mx, c.dx0)
  cx = dx._impl.contact
  act = np.flatnonzero(np.asarray(cx.dist) < np.asarray(cx.includemargin))
  D = np.asarray(dx._impl.efc_D)
  return (len(act) > int(td.ncon),
          'plane vs capsule of a mocap body (both dof-less): C engine ncon=%d nefc=%d; MJX active contacts=%d geoms=%s dist=%s, max efc_D=%.3g' % (
              int(td.ncon), int(td.nefc), len(act), np.asarray(cx.geom)[act].tolist(), np.asarray(cx.dist)[act].tolist(), float(D.max()) if D.size else 0))


XML['F26'] = ('<mujoco><option><flag actuation="disable"/></option><worldbody><body><joint name="j" type="hinge"/><geom size=".1" pos=".2 0 0"/>'
              '</body></worldbody><actuator><general joint="j" dyntype="filter" dynprm="0.5" actlimited="true" actrange="-0.5 1"/></actuator></mujoco>')


def F26(env):
  return _cmp(env, XML['F26'], ['act'], act=[-0.8], step=True)


XML['F31'] = ('<mujoco><option><flag equality="disable"/></option><worldbody><body name="a" pos="0 0 1"><joint name="j" type="hinge" axis="0 1 0" '
              'range="-10 10" limited="true"/><geom size=".1" pos=".3 0 0"/><site name="s" pos=".1 0 0"/></body></worldbody>'
              '<equality><connect body1="a" anchor=".3 0 0"/></equality><sensor><force site="s"/><torque site="s"/></sensor></mujoco>')


def F31(env):
  """deviates if the force/torque sensors differ from the C engine or mjx.forward raises (with fewer than 3 constraint rows the
  mis-indexed efc_force slice cannot even be reshaped)."""
  try:
    return _cmp(env, XML['F31'], ['sensordata'], qpos=[0.5], qvel=[1.0])
  except Exception as e:
    tb = [l.strip() for l in traceback.format_exc().split('\n') if 'mjx/_src' in l]
    return True, 'mjx.forward raised %s: %s (%s); the C engine returns finite force/torque sensor values' % (type(e).__name__, str(e)[:120], tb[-1] if tb else '')


XML['F29'] = ('<mujoco><option gravity="0 0 0"/><worldbody><site name="w" pos="-0.4 -0.3 -0.4"/><body pos="0 0 0.1"><joint type="free"/>'
              '<geom size=".05" mass="1.7"/><body pos=".12 .1 -.23"><joint type="ball"/><geom type="capsule" size=".05 .1" mass="3"/>'
              '<site name="s" pos=".07 .19 -.07"/></body></body></worldbody>'
              '<tendon><spatial armature="0.08"><site site="s"/><site site="w"/></spatial></tendon></mujoco>')


def F29(env):
  """deviates if the armature part of qfrc_bias (with armature minus without) differs between MJX and the C engine; the
  detail also gives the finite-difference reference armature * J^T * (d/dt J) v."""
  mujoco, mjx, jax, jp, lib, gx = env
  c = gx.build(lib, XML['F29'])
  tm = c.tm
  qvel = np.random.RandomState(3).uniform(-1, 1, tm.nv)
  d = lib.make_data(tm)
  d.qvel[:] = qvel
  lib.mj_forward(tm, d)
  dx = jax.jit(mjx.forward)(c.mx, c.dx0.replace(qvel=jp.asarray(qvel)))
  tm0 = lib.copy_model(tm)
  tm0.tendon_armature[:] = 0
  d0 = lib.make_data(tm0)
  d0.qvel[:] = qvel
  lib.mj_forward(tm0, d0)

  def ten_j(q):
    dd = lib.make_data(tm)
    dd.qpos[:] = q
    lib.mj_forward(tm, dd)
    out = np.zeros((1, tm.nv))
    lib.mju_sparse2dense(out, np.ascontiguousarray(dd.ten_J).ravel(), 1, tm.nv, np.ascontiguousarray(tm.ten_J_rownnz),
                         np.ascontiguousarray(tm.ten_J_rowadr), np.ascontiguousarray(tm.ten_J_colind))
    return out[0].copy()
  qp, qm = np.array(d.qpos), np.array(d.qpos)
  lib.mj_integratePos(tm, qp, qvel, 1e-6)
  lib.mj_integratePos(tm, qm, qvel, -1e-6)
  ref = 0.08 * ten_j(np.array(d.qpos)) * (((ten_j(qp) - ten_j(qm)) / 2e-6) @ qvel)
  bc = np.array(d.qfrc_bias) - np.array(d0.qfrc_bias)
  bx = np.asarray(dx.qfrc_bias) - np.array(d0.qfrc_bias)
  e = _rel(bc, bx)
  return e > RTOL, 'armature term of qfrc_bias: C engine %s, MJX %s (rel diff %.3g); finite-difference reference %s' % (
      _fmt(bc), _fmt(bx), e, _fmt(ref))


# ------------------------------------------------------------------ C44 (io.py; reference = the MjData / MjModel given to MJX)

XML['F8'] = ('<mujoco><worldbody><geom type="plane" size="1 1 .1"/><body pos="0 0 1"><joint type="free"/><geom size=".1"/></body>'
             '</worldbody></mujoco>')


def F8(env):
  """deviates if get_data(make_data(m)).ncon != MjData(m).ncon (= 0)."""
  mujoco, mjx, jax, jp, lib, gx = env
  mm = mujoco.MjModel.from_xml_string(XML['F8'])
  fresh = mjx.get_data(mm, mjx.make_data(mm))
  ref = mujoco.MjData(mm)
  return int(fresh.ncon) != int(ref.ncon), 'get_data(m, make_data(m)).ncon=%d with contact.geom=%s dist=%s; MjData(m).ncon=%d' % (
      fresh.ncon, fresh.contact.geom.tolist(), fresh.contact.dist.tolist(), ref.ncon)


XML['F9'] = ('<mujoco><worldbody><body pos="0 0 1"><joint name="j" type="hinge" range="-30 30" limited="true"/><geom size=".1"/></body>'
             '<body pos="1 0 1"><joint name="k" type="slide" range="-1 1" limited="true"/><geom size=".1"/></body></worldbody>'
             '<equality><joint joint1="j" joint2="k" active="false"/></equality></mujoco>')


def F9(env):
  """deviates if ne/nf/nl of get_data(put_data(d)) differ from d."""
  mujoco, mjx, jax, jp, lib, gx = env
  mm = mujoco.MjModel.from_xml_string(XML['F9'])
  md = mujoco.MjData(mm)
  md.qpos[0] = 1.0
  mujoco.mj_forward(mm, md)
  back = mjx.get_data(mm, mjx.put_data(mm, md))
  a = (int(md.ne), int(md.nf), int(md.nl), int(md.nefc))
  b = (int(back.ne), int(back.nf), int(back.nl), int(back.nefc))
  return a[:3] != b[:3], 'hinge beyond its limit, inactive joint equality: original (ne,nf,nl,nefc)=%s, after get_data(put_data(d)) %s' % (a, b)


XML['F19'] = ('<mujoco><worldbody><geom type="plane" size="1 1 .1" margin="0.05"/><body pos="0 0 0.12"><joint type="free"/><geom size=".1"/>'
              '</body></worldbody></mujoco>')


def F19(env):
  """deviates if ncon changes in the round trip."""
  mujoco, mjx, jax, jp, lib, gx = env
  mm = mujoco.MjModel.from_xml_string(XML['F19'])
  md = mujoco.MjData(mm)
  mujoco.mj_forward(mm, md)
  back = mjx.get_data(mm, mjx.put_data(mm, md))
  return int(back.ncon) != int(md.ncon), 'sphere 0.02 above a plane with margin 0.05: original ncon=%d dist=%s nefc=%d; round trip ncon=%d nefc=%d' % (
      md.ncon, md.contact.dist.tolist(), md.nefc, back.ncon, back.nefc)


XML['F20'] = '<mujoco><worldbody><geom type="plane" size="1 1 .1"/><body pos="0 0 0.05"><joint type="free"/><geom size=".1"/></body></worldbody></mujoco>'


def F20(env):
  """deviates if solver_niter returned by get_data(mjx.forward(...)) is 0 while the C solver ran >= 1 iteration."""
  mujoco, mjx, jax, jp, lib, gx = env
  mm = mujoco.MjModel.from_xml_string(XML['F20'])
  dx = jax.jit(mjx.forward)(mjx.put_model(mm), mjx.make_data(mm))
  back = mjx.get_data(mm, dx)
  md = mujoco.MjData(mm)
  mujoco.mj_forward(mm, md)
  return int(back.solver_niter[0]) == 0 and int(md.solver_niter[0]) > 0 and int(md.nefc) > 0, (
      'penetrating sphere on a plane (nefc=%d): solver_niter after get_data(mjx.forward)=%d, mj_forward=%d' % (
          md.nefc, int(back.solver_niter[0]), int(md.solver_niter[0])))


XML['F22'] = ('<mujoco><worldbody><body name="a" pos="0 0 1"><joint type="hinge" axis="0 1 0"/><geom size=".1" pos=".2 0 0"/></body></worldbody>'
              '<equality><connect body1="a" anchor=".3 0 0"/></equality></mujoco>')


def F22(env):
  """deviates if nefc changes in the round trip."""
  mujoco, mjx, jax, jp, lib, gx = env
  mm = mujoco.MjModel.from_xml_string(XML['F22'])
  md = mujoco.MjData(mm)
  md.qpos[:] = 0.3
  md.qvel[:] = 0.5
  mujoco.mj_forward(mm, md)
  back = mjx.get_data(mm, mjx.put_data(mm, md))
  J = md.efc_J.reshape(-1, mm.nv)[:md.nefc]
  return int(back.nefc) != int(md.nefc), ('connect on a y-axis hinge (the y row of the Jacobian is exactly 0): original nefc=%d efc_J=%s efc_pos=%s; '
                                          'round trip nefc=%d efc_pos=%s' % (md.nefc, J.ravel().tolist(), md.efc_pos.tolist(), back.nefc,
                                                                             back.efc_pos.tolist()))


XML['F25'] = ('<mujoco><worldbody><body pos="0 0 1"><joint type="free"/><geom size=".1"/><site name="a"/></body>'
              '<body pos="1 0 1"><joint type="free"/><geom size=".1"/><site name="b" pos=".1 .1 0"/></body></worldbody>'
              '<tendon><spatial><site site="a"/><site site="b"/></spatial></tendon></mujoco>')


def F25(env):
  """deviates if ten_J of the round trip is not bit-identical."""
  mujoco, mjx, jax, jp, lib, gx = env
  mm = mujoco.MjModel.from_xml_string(XML['F25'])
  md = mujoco.MjData(mm)
  mujoco.mj_forward(mm, md)
  back = mjx.get_data(mm, mjx.put_data(mm, md))
  return not np.array_equal(md.ten_J, back.ten_J), 'spatial tendon between two free bodies, site a at the body origin: ten_J original %s, round trip %s (colind %s)' % (
      np.round(md.ten_J, 6).tolist(), np.round(back.ten_J, 6).tolist(), mm.ten_J_colind.tolist())


# ------------------------------------------------------------------ C45

XML['F10'] = ('<mujoco><option cone="elliptic" iterations="1" ls_iterations="4"/><worldbody><geom type="plane" size="5 5 .1" pos="0 0 -4"/>'
              '<body pos="0 0 .5"><joint type="hinge" axis="0 1 0"/><geom size=".1" pos=".2 0 0"/></body></worldbody></mujoco>')


def F10(env):
  """deviates if jacfwd or jacrev of qvel' = step(qvel) is non-finite while the value is finite."""
  mujoco, mjx, jax, jp, lib, gx = env
  mm = mujoco.MjModel.from_xml_string(XML['F10'])
  mx, dx = mjx.put_model(mm), mjx.make_data(mm)
  f = lambda qvel: mjx.step(mx, dx.replace(qvel=qvel)).qvel
  x = jp.ones(1) * .3
  v, jf, jr = np.asarray(f(x)), np.asarray(jax.jacfwd(f)(x)).ravel(), np.asarray(jax.jacrev(f)(x)).ravel()
  dev = bool(np.all(np.isfinite(v)) and not (np.all(np.isfinite(jf)) and np.all(np.isfinite(jr))))
  return dev, 'cone=elliptic, sphere 4.4 above a plane (contact slot inactive): step(qvel=0.3).qvel=%s, jacfwd=%s, jacrev=%s' % (v, jf, jr)


# ------------------------------------------------------------------ C engine side (not attached to a property)

XML['F14'] = ('<mujoco><option integrator="implicitfast" gravity="0 0 0"/><worldbody><body><joint name="a" type="slide" axis="1 0 0"/>'
              '<geom size=".1"/></body><body pos="0 1 0"><joint name="b" type="slide" axis="1 0 0"/><geom size=".1"/></body></worldbody>'
              '<tendon><fixed damping="20"><joint joint="a" coef="1"/><joint joint="b" coef="-1"/></fixed></tendon></mujoco>')
XML['F21'] = XML['F14'].replace(' integrator="implicitfast"', '').replace('<fixed damping="20">', '<fixed armature="0.5">')


def F14(env):
  return _cmp(env, XML['F14'], ['qvel'], qvel=[1.0, -0.5], step=True)


def F21(env):
  """dense M of the C engine (mj_fullM) vs MJX dense M: the off-diagonal armature*J'J entry coupling the two trees."""
  mujoco, mjx, jax, jp, lib, gx = env
  c = gx.build(lib, XML['F21'])
  td = lib.make_data(c.tm)
  lib.mj_forward(c.tm, td)
  dx = jax.jit(mjx.forward)(c.mx, c.dx0)
  Mc, Mx = lib.fullM(c.tm, td), np.asarray(dx._impl.M)
  return _rel(Mc, Mx) > RTOL, 'M: C engine %s, MJX %s' % (Mc.ravel().tolist(), Mx.ravel().tolist())


# name -> (property, fingerprint, what)   ('what' is the text registered in known_findings.json)
PROBES = {
    'F1': ('C43', 'mjx-F1-connect-weld-no-jdotv', "mjx/_src/constraint.py make_constraint: efc_aref of connect/weld rows lacks the Jdot*v term that "
           "mj_referenceConstraint->mj_Jdotv subtracts; free body + <connect> with qvel=(.3,.2,.1,2,1,-1.5): efc_aref (-30.60,25.72,21.95) in C vs "
           "(-31.58,26.32,21.05) in MJX, qacc differs"),
    'F2': ('C43', 'mjx-F2-elliptic-no-frictional-slot-typeerror', "mjx/_src/solver.py _update_constraint: cone=elliptic with constraint rows but no contact "
           "slot of condim>1 (one limited hinge, no contacts) indexes with jp.array([]) (float64) -> TypeError from mjx.forward"),
    'F3': ('C43', 'mjx-F3-sensor-acc-skipped-without-constraints', "mjx/_src/forward.py forward(): returns before sensor.sensor_acc when efc_J.size==0; "
           "hinge + accelerometer/framelinacc, no constraints: sensordata stays 0 (C: -0.3,0,0.417,...)"),
    'F4': ('C43', 'mjx-F4-spring-or-damper-flag-zeroes-passive', "mjx/_src/passive.py passive(): 'disableflags & (SPRING | DAMPER)' returns zero passive "
           "force when only one of the two flags is set; hinge damping=2 stiffness=3 with spring disabled: qfrc_passive -2 in C, 0 in MJX"),
    'F5': ('C43', 'mjx-F5-actearly-ignored', "mjx/_src/forward.py fwd_actuation: actuator_actearly is never read (put_model accepts it); integrator actuator "
           "gainprm=2 actearly=true ctrl=1 act=.5: actuator_force 1.004 in C, 1.0 in MJX"),
    'F11': ('C43', 'mjx-F11-implicitfast-free-body-gyroscopic', "mjx/_src/forward.py implicit(): no gyroscopic derivative block for standalone free bodies "
            "(C: mjd_freeMhat local LU solve); spinning free box, implicitfast: next qvel differs at 1e-5 relative"),
    'F12': ('C43', 'mjx-F12-implicitfast-unclamped-ctrl-derivative-nan', "mjx/_src/derivative.py deriv_smooth_vel: velocity gain multiplied by the unclamped "
            "d.ctrl; <damper kv=1.7 ctrlrange='0 1.4'> with ctrl=-1.9 on a light hinge: M-h*qDeriv indefinite, mjx.step returns qvel=NaN (C: 0.3)"),
    'F13': ('C43', 'mjx-F13-implicitfast-clamped-actuator-derivative', "mjx/_src/derivative.py deriv_smooth_vel: actuators clamped by forcerange are not "
            "skipped (C mjd_actuator_vel skips them); <velocity kv=5 forcerange='-1 1'> qvel=2: next qvel 2.05754 in C, 2.05611 in MJX"),
    'F15': ('C43', 'mjx-F15-touch-sensor-no-contact-slot-valueerror', "mjx/_src/sensor.py sensor_acc: touch sensor in a model with constraint rows "
            "(frictionloss) but no contact slot -> ValueError 'Need at least one array to concatenate' from mjx.forward"),
    'F16': ('C43', 'mjx-F16-child-of-mocap-ignores-mocap-pose', "mjx/_src/smooth.py kinematics(): mocap pose is written after the body-tree scan, so a body "
            "attached to a mocap body is placed relative to the model pose; mocap_pos=(.5,.5,2), child offset .2: child xpos (.7,.5,2) in C, (.2,0,1) in MJX"),
    'F17': ('C43', 'mjx-F17-actuator-velocity-with-actuation-disabled', "mjx/_src/forward.py fwd_velocity: actuator_velocity computed although actuation is "
            "disabled (C mj_fwdVelocity zeroes it); actuatorvel sensor, gear 2, qvel 1.5: 0 in C, 3 in MJX"),
    'F23': ('C43', 'mjx-F23-contacts-between-dofless-bodies', "mjx/_src/collision_driver.py geom_pairs: no 'both bodies dof-less' filter (C filterBodyPair); "
            "plane vs capsule of a mocap body: 0 contacts in C, 2 active contacts in MJX whose rows have R=mjMINVAL, D=1e15 (same for connect/weld on "
            "a mocap body) and cost the MJX solver its precision"),
    'F26': ('C43', 'mjx-F26-act-clamped-with-actuation-disabled', "mjx/_src/forward.py _next_activation: act is clamped to actrange although actuation is "
            "disabled (C mj_advance leaves act untouched); act=-0.8, actrange -0.5..1: next act -0.8 in C, -0.5 in MJX"),
    'F29': ('C43', 'mjx-F29-spatial-tendon-armature-bias', "mjx/_src/smooth.py tendon_dot/tendon_bias: qfrc_bias term armature*J^T*(Jdot v) of a spatial "
            "tendon is wrong; free body + ball child, <spatial armature=.08> to a world site: C engine equals the finite-difference reference "
            "(0.0252,...), MJX gives (0.00278,...)"),
    'F31': ('C43', 'mjx-F31-rnepost-ignores-equality-disable-flag', "mjx/_src/smooth.py rne_postconstraint: reads efc_force[:3*nconnect] (and the weld "
            "block) as connect/weld forces although the equality flag is disabled and those rows do not exist; hinge beyond its limit + <connect> + "
            "<flag equality=disable>: the limit force is applied as a connect force, force/torque sensors differ from the C engine"),
    'F8': ('C44', 'mjx-F8-get-data-of-make-data-phantom-contacts', "mjx/_src/io.py _get_data_into: ncon=(contact.dist<=0).sum() counts the dist=0 placeholder "
           "slots of make_data; get_data(m, make_data(m)).ncon=1 with geom (-1,-1) for plane+free sphere, MjData(m).ncon=0"),
    'F9': ('C44', 'mjx-F9-get-data-static-ne-nf-nl', "mjx/_src/io.py _get_data_into: ne/nf/nl are copied from the static MJX slot counts while nefc and the efc "
           "arrays are compacted; hinge beyond limit + inactive joint equality: (ne,nf,nl,nefc)=(0,0,1,1) becomes (1,0,2,1)"),
    'F19': ('C44', 'mjx-F19-get-data-drops-contacts-inside-margin', "mjx/_src/io.py _get_contact: keeps contacts with dist<=0 only; sphere 0.02 above a plane "
            "with margin 0.05: ncon 1 -> 0 in get_data(put_data(d)) while nefc stays 4"),
    'F20': ('C44', 'mjx-F20-solver-niter-never-written', "mjx/_src/solver.py solve(): solver_niter of the returned Data is never updated; penetrating sphere on "
            "plane: get_data(mjx.forward).solver_niter[0]=0, mj_forward >= 1"),
    'F22': ('C44', 'mjx-F22-get-data-drops-zero-jacobian-rows', "mjx/_src/io.py _get_data_into: efc_active=(efc_J!=0).any(axis=1) drops genuine rows whose "
            "Jacobian is exactly zero; <connect> on a y-axis hinge: nefc 3 -> 2 in get_data(put_data(d))"),
    'F25': ('C44', 'mjx-F25-get-data-ten-j-structural-zero', "mjx/_src/io.py _get_data_into: ten_J packed with mju_dense2sparse (drops exact zeros) although "
            "MjData.ten_J follows the static m.ten_J_colind; spatial tendon between two free bodies with a site at the body origin: values shifted"),
    'F10': ('C45', 'mjx-F10-elliptic-cone-nan-gradients', "mjx/_src/solver.py (elliptic cone paths): jacfwd/jacrev of mjx.step are NaN as soon as the model "
            "has a contact slot, even inactive; cone=elliptic, hinge with sphere 4.4 above a plane: value finite, d qvel'/d qvel = NaN"),
}
BY_PROPERTY = {p: [n for n, v in PROBES.items() if v[0] == p] for p in ('C43', 'C44', 'C45')}


def run_probes(ck, names, env=None):
  """Run the named probes and report the deviating ones through ck.violation with their fingerprint."""
  env = env or setup()
  for n in names:
    prop, fp, what = PROBES[n]
    try:
      dev, detail = globals()[n](env)
    except Exception as e:            # a probe that cannot run is a harness problem of the probe, not a verdict
      ck.discard('probe-%s-error:%s' % (n, type(e).__name__))
      print('probe %s failed to run: %s' % (n, traceback.format_exc()[-600:]), flush=True)
      continue
    ck.label('probe:%s:%s' % (n, 'deviates' if dev else 'agrees'))
    if dev:
      ck.violation('%s: %s' % (n, detail), dict(probe=n, xml=XML.get(n), detail=detail), bucket='known:mjx-' + n, fingerprint=fp)


if __name__ == '__main__':
  np.set_printoptions(precision=9, linewidth=160)
  env = setup()
  want = set(sys.argv[1:])
  for n in list(PROBES) + ['F14', 'F21']:
    if want and n not in want:
      continue
    try:
      dev, detail = globals()[n](env)
      print('== %s %s\n   %s' % (n, 'DEVIATES' if dev else 'agrees', detail), flush=True)
    except Exception:
      traceback.print_exc()
