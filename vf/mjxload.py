"""Loader for the tree's MJX (vb.REPO/mjx) on top of the installed `mujoco` wheel + JAX (float64, CPU).

  from vf import mjxload
  mujoco, mjx, jax, jp = mjxload.load()

The MJX python sources come from vb.REPO (so VERIF_REPO mutants are honoured); `mujoco` (MjModel/MjData, the C
engine MJX's put_model/put_data/get_data talk to) is the prebuilt wheel, which is NOT the tree's engine.
trimesh is not installed: a stub module is registered (mesh geoms are therefore outside the tested domain);
a missing `warp` only disables the MJX-Warp backend.
"""
import os
import sys
import types

from . import build as vb

_LOADED = None


def load(threads=None):
  global _LOADED
  if _LOADED is not None:
    return _LOADED
  # ORDER MATTERS: the wheel's libmujoco must be loaded (RTLD_LOCAL|RTLD_NOW, fully bound) before vf.mj loads the
  # tree's libmujoco_vf with RTLD_GLOBAL; in the opposite order the wheel's calls are interposed by the tree's
  # symbols (different struct layouts) and the process aborts ("resource decoder already registered").
  mjmod = sys.modules.get('vf.mj')
  if mjmod is not None and getattr(mjmod, '_LIBS', None) and 'mujoco' not in sys.modules:
    raise RuntimeError('mjxload.load() must be called before ck.lib()/mj.load()')
  threads = threads or int(os.environ.get('VERIF_JAX_THREADS', '4'))
  flags = os.environ.get('XLA_FLAGS', '')
  if 'xla_cpu_multi_thread_eigen' not in flags:
    flags = (flags + ' --xla_cpu_multi_thread_eigen=false').strip()
  # XLA sizes its CPU thread pools from the affinity mask: restrict this process to `threads` cores (shared machine)
  try:
    cur = sorted(os.sched_getaffinity(0))
    if len(cur) > threads:
      off = (os.getpid() % max(1, len(cur) // threads)) * threads
      os.sched_setaffinity(0, set(cur[off:off + threads]))
  except Exception:
    pass
  if 'xla_backend_optimization_level' not in flags:
    # jaxlib 0.11.1 CPU: at the default LLVM optimisation level the compiled vmap(mjx.forward) SEGFAULTS for some
    # generated models (vmap of constraint.make_constraint with ball limits + mixed-condim pyramidal contacts; each
    # _efc_* function alone is fine, and the un-vmapped function is fine).  Level 0 avoids the crash; it only changes
    # how LLVM optimises the same HLO, so results stay IEEE-double evaluations of the same program.
    flags += ' --xla_backend_optimization_level=0'
  os.environ['XLA_FLAGS'] = flags
  os.environ.setdefault('JAX_PLATFORMS', 'cpu')
  os.environ.setdefault('NPROC', str(threads))
  os.environ.setdefault('OMP_NUM_THREADS', str(threads))
  import logging
  logging.getLogger('jax').setLevel(logging.ERROR)
  import jax
  jax.config.update('jax_enable_x64', True)
  jax.config.update('jax_platforms', 'cpu')
  # persistent XLA compilation cache (keyed by HLO + compiler version): repeated runs of the same seed skip the
  # backend compile; tracing the (possibly mutated) MJX python sources still happens on every run.
  cdir = os.path.join(vb.CACHE, 'jax')
  try:
    if os.environ.get('VERIF_JAX_CACHE', '1') == '0':
      raise RuntimeError('cache disabled')
    os.makedirs(cdir, exist_ok=True)
    jax.config.update('jax_compilation_cache_dir', cdir)
    jax.config.update('jax_persistent_cache_min_compile_time_secs', 1.0)
    jax.config.update('jax_persistent_cache_min_entry_size_bytes', 0)
  except Exception:
    pass
  import mujoco
  src = os.path.join(vb.REPO, 'mjx', 'mujoco')
  if not os.path.isdir(os.path.join(src, 'mjx', '_src')):
    raise RuntimeError('no MJX sources under ' + src)
  if src not in list(mujoco.__path__):
    mujoco.__path__.append(src)
  if 'trimesh' not in sys.modules:
    try:
      import trimesh  # noqa: F401
    except Exception:
      tm = types.ModuleType('trimesh')

      class Trimesh:   # placeholder: only used for mesh geoms, which the generators never produce
        def __init__(self, *a, **k):
          raise NotImplementedError('trimesh is not installed in the verification environment')
      tm.Trimesh = Trimesh
      sys.modules['trimesh'] = tm
  import io as _io
  import contextlib
  buf = _io.StringIO()
  with contextlib.redirect_stdout(buf), contextlib.redirect_stderr(buf):
    from mujoco import mjx
  f = os.path.realpath(mjx.__file__)
  if not f.startswith(os.path.realpath(src) + os.sep):
    raise RuntimeError('mjx imported from %s, expected under %s' % (f, src))
  import jax.numpy as jp
  _LOADED = (mujoco, mjx, jax, jp)
  return _LOADED
