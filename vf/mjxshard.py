"""Run an MJX check in several worker processes (jit compilation is single threaded and dominates the cost).

Parent:   mjxshard.run(ck, 'c43', nshards)   -> spawns `python -m vf.mjxshard c43 <tier> <seed> <i> <n> <out.json>`
Child :   imports checks.<mod>, builds a private runner.Check, calls mod.shard_main(ck_child, i, n), dumps its counters.
The parent merges evaluations, distinct non-trivial digests, samples, labels, discards, extra, violations and known-finding hits.
A worker that dies from a signal (XLA:CPU code generation bugs do that, see vf/mjxload.py) is recorded as discard
'shard-died' - the code under test is python, it cannot segfault by itself; if every worker dies it is a harness error.
"""
import json
import os
import subprocess
import sys
import time

VERIF = os.path.dirname(os.path.dirname(os.path.abspath(__file__)))


def run(ck, mod, nshards, timeout=3600):
  out_dir = os.path.join(VERIF, 'work', 'shards')
  os.makedirs(out_dir, exist_ok=True)
  procs = []
  for i in range(nshards):
    out = os.path.join(out_dir, '%s_%s_%d_%d_%d.json' % (mod, ck.tier, ck.seed, i, os.getpid()))
    if os.path.exists(out):
      os.unlink(out)
    env = dict(os.environ)
    env['PYTHONPATH'] = VERIF + (':' + env['PYTHONPATH'] if env.get('PYTHONPATH') else '')
    env['PYTHONHASHSEED'] = '0'
    p = subprocess.Popen([sys.executable, '-m', 'vf.mjxshard', mod, ck.tier, str(ck.seed), str(i), str(nshards), out],
                         cwd=VERIF, env=env)
    procs.append((i, p, out))
  t0 = time.time()
  died = 0
  merged_extra = {}
  for i, p, out in procs:
    try:
      rc = p.wait(timeout=max(1, timeout - (time.time() - t0)))
    except subprocess.TimeoutExpired:
      p.kill()
      p.wait()
      rc = -9
    if not os.path.exists(out):
      died += 1
      ck.discard('shard-died(rc=%d)' % rc)
      continue
    with open(out) as f:
      r = json.load(f)
    os.unlink(out)
    if r.get('harness_error'):
      raise RuntimeError('shard %d harness error:\n%s' % (i, r['harness_error']))
    ck.evaluations += r['evaluations']
    before = len(ck.nontrivial)
    ck.nontrivial |= set(r['nontrivial'])
    for s in r['samples']:
      if len(ck.samples) < ck.max_samples and s not in ck.samples:
        ck.samples.append(s)
    for k, v in r['labels'].items():
      ck.labels[k] += v
    for k, v in r['discards'].items():
      ck.discards[k] += v
    for b, msg, path in r['violations']:
      if not any(v[0] == b for v in ck.violations):
        ck.violations.append((b, msg, path))
    for fp, what in r.get('known_hits', []):
      if fp not in [k[0] for k in ck.known_hits]:
        ck.known_hits.append((fp, what))      # the worker already printed the KNOWN-FINDING line
    for k, v in r['extra'].items():
      merged_extra.setdefault(k, []).append(v)
  if died == nshards:
    raise RuntimeError('all %d MJX worker processes died' % nshards)
  return merged_extra


def merge_max(dicts):
  out = {}
  for d in dicts:
    for k, v in d.items():
      if isinstance(v, (int, float)) and (k not in out or v > out[k]):
        out[k] = v
  return out


def merge_sum(dicts):
  out = {}
  for d in dicts:
    for k, v in d.items():
      out[k] = out.get(k, 0) + v
  return out


def _child(argv):
  import importlib
  import traceback
  mod, tier, seed, i, n, out = argv[0], argv[1], int(argv[2]), int(argv[3]), int(argv[4]), argv[5]
  from vf import runner
  m = importlib.import_module('checks.' + mod)
  ck = runner.Check(mod.upper(), tier, seed, getattr(m, 'LEVEL', 'exploration'))
  res = {}
  try:
    try:
      m.shard_main(ck, i, n)
    except runner.Violation as e:
      ck.violation('Violation: %s' % e, dict(note='raised outside hypothesis'), bucket=getattr(e, 'bucket', None))
  except Exception:
    res['harness_error'] = traceback.format_exc()[-3000:]
  res.update(evaluations=ck.evaluations, nontrivial=sorted(ck.nontrivial), samples=ck.samples, labels=dict(ck.labels),
             discards=dict(ck.discards), violations=[list(v) for v in ck.violations], extra=runner._jsonable(ck.extra),
             known_hits=[list(k) for k in ck.known_hits])
  tmp = out + '.tmp'
  with open(tmp, 'w') as f:
    json.dump(res, f)
  os.replace(tmp, out)
  sys.stdout.flush()
  os._exit(0)   # skip interpreter teardown (XLA / ctypes destructors)


if __name__ == '__main__':
  _child(sys.argv[1:])
