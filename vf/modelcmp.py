"""Compare two compiled mjModel objects field by field through reflection (shared by C31/C32/C33/C36).

  diffs = modelcmp.compare(lib, m1, m2, mode='exact')        # bit-exact (floats by bit pattern, NaN == same NaN)
  diffs = modelcmp.compare(lib, m1, m2, mode='upstream')     # the maintainers' own rule of test/compare_model.cc
  diffs = modelcmp.compare(lib, m1, m2, mode='rel', rtol=1e-5)

Returns a list of Diff(field, kind, detail, err).  What is compared (everything that reflection exposes):
  * every size of MJMODEL_SIZES (lib.model_sizes),
  * every array of MJMODEL_POINTERS (lib.model_fields),
  * every scalar/vector member of the opt / vis / stat sub-structs (from the clang record layout lib.layout['mjModel']),
  * the remaining scalar members of mjModel that are not pointers (flg_*, signature) unless listed in `skip`.

The 'upstream' rule is restated from the comment and definition in test/compare_model.cc: integers/bytes must be
equal; for floating point values the error is |a-b| if |a|<=1 or |b|<=1 and |a/s-b/s|/s with s=|a|+|b| otherwise, and
errors below 200*eps of the type are ignored.  UPSTREAM_SKIP lists the array families upstream does not compare after
an XML round trip; 'nbuffer' is skipped among the sizes there.
"""
import collections

import numpy as np

Diff = collections.namedtuple('Diff', 'field kind detail err')

# families skipped by test/compare_model.cc (bvh-related arrays, flex arrays derived from data that is not fully
# serialized to XML, mesh polygon arrays)
UPSTREAM_SKIP_PREFIX = ('bvh_', 'flex_vert', 'mesh_poly', 'flex_node')
UPSTREAM_SKIP_NAMES = ('flex_centered', 'flex_size', 'flexedge_length0', 'flexedge_invweight0')


def upstream_skips(name):
  return name.startswith(UPSTREAM_SKIP_PREFIX) or name in UPSTREAM_SKIP_NAMES


def struct_members(lib, prefixes=('opt.', 'vis.', 'stat.')):
  """Leaf members of the embedded sub-structs of mjModel: [(dotted name, layout record)]."""
  out = []
  for k, f in lib.layout['mjModel']['fields'].items():
    if 'struct' in f:
      continue
    if k.startswith(prefixes):
      out.append((k, f))
  return out


def extra_scalars(lib):
  """Non-pointer members of mjModel that are neither sizes nor inside opt/vis/stat (e.g. flg_gravcomp, signature)."""
  out = []
  sizes = set(lib.model_sizes)
  ptrs = set(lib.model_fields)
  for k, f in lib.layout['mjModel']['fields'].items():
    if 'struct' in f or '.' in k or k in sizes or k in ptrs or f.get('ptr') or k == 'buffer':
      continue
    out.append((k, f))
  return out


def _member(m, dotted):
  o = m
  parts = dotted.split('.')
  for p in parts[:-1]:
    o = getattr(o, p)
  return getattr(o, parts[-1])


def _bits(a):
  a = np.ascontiguousarray(a)
  return a.view(np.uint8)


def _float_err_upstream(a, b):
  """Error array per the rule of test/compare_model.cc (0 where below 200*eps)."""
  a = np.asarray(a)
  b = np.asarray(b)
  eps = np.finfo(a.dtype).eps
  with np.errstate(all='ignore'):
    absa, absb = np.abs(a), np.abs(b)
    small = (absa <= 1) | (absb <= 1)
    mag = absa + absb
    err = np.where(small, np.abs(a - b), np.abs(a / mag - b / mag) / mag)
  nanmis = np.isnan(a) != np.isnan(b)
  err = np.where(np.isnan(err), np.where(nanmis, np.inf, 0.0), err)
  err = np.where(err < 200 * eps, 0.0, err)
  return err


def _float_err_rel(a, b, rtol, atol):
  a = np.asarray(a, dtype=np.float64)
  b = np.asarray(b, dtype=np.float64)
  with np.errstate(all='ignore'):
    err = np.abs(a - b) / (atol / max(rtol, 1e-300) + np.maximum(np.abs(a), np.abs(b)))
  nanmis = np.isnan(a) != np.isnan(b)
  err = np.where(np.isnan(err), np.where(nanmis, np.inf, 0.0), err)
  return np.where(err <= rtol, 0.0, err)


def _cmp_array(name, x, y, mode, rtol, atol, out):
  if x.shape != y.shape:
    out.append(Diff(name, 'shape', '%s vs %s' % (x.shape, y.shape), float('inf')))
    return
  if x.size == 0:
    return
  if x.dtype.kind == 'f' and mode != 'exact':
    err = _float_err_upstream(x, y) if mode == 'upstream' else _float_err_rel(x, y, rtol, atol)
    if np.any(err > 0):
      i = int(np.argmax(err))
      idx = np.unravel_index(i, x.shape)
      out.append(Diff(name, 'float', 'index %s: %r vs %r' % (tuple(int(k) for k in idx), float(x[idx]), float(y[idx])),
                      float(err[idx])))
    return
  if x.dtype.kind == 'V':
    same = x.tobytes() == y.tobytes()
  else:
    same = np.array_equal(_bits(x), _bits(y))
  if not same:
    if x.dtype.kind == 'V':
      out.append(Diff(name, 'bytes', 'struct array differs', float('inf')))
      return
    xs, ys = x.ravel(), y.ravel()
    neq = _bits(xs).reshape(xs.size, -1) != _bits(ys).reshape(ys.size, -1)
    i = int(np.flatnonzero(neq.any(axis=1))[0])
    idx = np.unravel_index(i, x.shape)
    out.append(Diff(name, 'exact' if x.dtype.kind == 'f' else 'int',
                    'index %s: %r vs %r (%d elements differ)' % (tuple(int(k) for k in idx), xs[i].item(), ys[i].item(),
                                                                   int(neq.any(axis=1).sum())), float('inf')))


def compare(lib, m1, m2, mode='exact', skip=(), skip_fn=None, rtol=1e-5, atol=0.0, sizes=True, structs=True,
            scalars=True, skip_sizes=()):
  """List of differences between two models (empty list = equal under `mode`)."""
  out = []
  skip = set(skip)
  if mode == 'upstream':
    skip_sizes = set(skip_sizes) | {'nbuffer'}
  if sizes:
    for s in lib.model_sizes:
      if s in skip_sizes or s in skip:
        continue
      a, b = getattr(m1, s), getattr(m2, s)
      if a != b:
        out.append(Diff(s, 'size', '%d vs %d' % (a, b), abs(a - b)))
    if out:
      return out       # arrays of different shapes are not comparable; report the sizes only (as upstream does)
  for f in lib.model_fields:
    if f in skip or (skip_fn and skip_fn(f)) or (mode == 'upstream' and upstream_skips(f)):
      continue
    _cmp_array(f, getattr(m1, f), getattr(m2, f), mode, rtol, atol, out)
  if structs:
    for k, rec in struct_members(lib):
      if k in skip or (skip_fn and skip_fn(k)):
        continue
      a, b = np.atleast_1d(np.asarray(_member(m1, k))), np.atleast_1d(np.asarray(_member(m2, k)))
      _cmp_array(k, a, b, mode, rtol, atol, out)
  if scalars:
    for k, rec in extra_scalars(lib):
      if k in skip or (skip_fn and skip_fn(k)):
        continue
      a, b = np.atleast_1d(np.asarray(_member(m1, k))), np.atleast_1d(np.asarray(_member(m2, k)))
      _cmp_array(k, a, b, 'exact', rtol, atol, out)
  return out


def fmt(diffs, limit=6):
  s = '; '.join('%s[%s] %s' % (d.field, d.kind, d.detail) for d in diffs[:limit])
  if len(diffs) > limit:
    s += '; ... (%d fields differ)' % len(diffs)
  return s


def names(lib, m, objtype, n):
  """Names of the n objects of a type (None for unnamed)."""
  return [lib.mj_id2name(m, objtype, i) or None for i in range(n)]
