"""Hypothesis strategies producing MJCF models ("programs") and states.

models(**features) -> strategy of GenModel(xml, info).  All numbers are drawn as small integers scaled to
a few decimals so that shrunk cases are readable and XML round-trips exactly.
"""
import math

import numpy as np
from hypothesis import strategies as st

JOINT_TYPES = ('free', 'ball', 'hinge', 'slide')
GEOM_TYPES = ('sphere', 'capsule', 'ellipsoid', 'cylinder', 'box')


class GenModel:
  def __init__(self, xml, info):
    self.xml = xml
    self.info = info

  def __repr__(self):
    return 'GenModel(%r)' % self.xml

  def labels(self):
    return sorted(self.info.get('labels', []))

  def to_json(self):
    return dict(xml=self.xml, labels=self.labels())


def num(lo, hi, digits=2):
  s = 10 ** digits
  return st.integers(int(math.ceil(lo * s)), int(math.floor(hi * s))).map(lambda k: k / s)


def fmt(x):
  if isinstance(x, (list, tuple, np.ndarray)):
    return ' '.join(fmt(v) for v in x)
  if isinstance(x, (int, np.integer)):
    return str(int(x))
  return repr(float(x))


@st.composite
def unit_quat(draw, exact=False):
  """Unit quaternion from small integer components (normalized)."""
  while True:
    q = [draw(st.integers(-4, 4)) for _ in range(4)]
    n = math.sqrt(sum(c * c for c in q))
    if n > 0:
      return [c / n for c in q]


@st.composite
def orientation(draw):
  """Random spelling of an orientation attribute: returns ('attr', 'value') or None."""
  kind = draw(st.sampled_from(['none', 'quat', 'euler', 'axisangle', 'zaxis', 'xyaxes']))
  if kind == 'none':
    return None
  if kind == 'quat':
    return ('quat', fmt(draw(unit_quat())))
  if kind == 'euler':
    return ('euler', fmt([draw(st.integers(-180, 180)) for _ in range(3)]))
  if kind == 'axisangle':
    ax = [draw(st.integers(-3, 3)) for _ in range(3)]
    if not any(ax):
      ax = [0, 0, 1]
    return ('axisangle', fmt(ax + [draw(st.integers(-180, 180))]))
  if kind == 'zaxis':
    ax = [draw(st.integers(-3, 3)) for _ in range(3)]
    if not any(ax):
      ax = [0, 1, 0]
    return ('zaxis', fmt(ax))
  # xyaxes: two non-parallel vectors
  x = [draw(st.integers(-3, 3)) for _ in range(3)]
  if not any(x):
    x = [1, 0, 0]
  y = [draw(st.integers(-3, 3)) for _ in range(3)]
  if np.linalg.norm(np.cross(x, y)) < 1e-9:
    y = [x[1] + 1, -x[0], x[2] + 1]
    if np.linalg.norm(np.cross(x, y)) < 1e-9:
      y = [x[2] + 1, x[0], -x[1] + 2]
  return ('xyaxes', fmt(x + y))


def _attrs(d):
  return ''.join(' %s="%s"' % (k, v if isinstance(v, str) else fmt(v)) for k, v in d.items() if v is not None)


@st.composite
def geom(draw, name, types=GEOM_TYPES, contacts=True, condims=(1, 3, 4, 6), small=False, density=True,
         friction=True, margin=False):
  t = draw(st.sampled_from(list(types)))
  lo, hi = (0.03, 0.15) if small else (0.03, 0.3)
  a = dict(name=name, type=t)
  if t == 'sphere':
    a['size'] = fmt([draw(num(lo, hi))])
  elif t in ('capsule', 'cylinder'):
    a['size'] = fmt([draw(num(lo, hi)), draw(num(lo, hi))])
  else:
    a['size'] = fmt([draw(num(lo, hi)) for _ in range(3)])
  if draw(st.booleans()):
    a['pos'] = fmt([draw(num(-0.2, 0.2)) for _ in range(3)])
  o = draw(orientation())
  if o:
    a[o[0]] = o[1]
  if density and draw(st.booleans()):
    if draw(st.booleans()):
      a['density'] = fmt(draw(num(100, 3000, 0)))
    else:
      a['mass'] = fmt(draw(num(0.05, 10)))
  if contacts:
    if draw(st.booleans()):
      a['condim'] = str(draw(st.sampled_from(list(condims))))
    if friction and draw(st.booleans()):
      a['friction'] = fmt([draw(num(0.1, 1.5)), draw(num(0.001, 0.1, 3)), draw(num(0.0001, 0.01, 4))])
    if margin and draw(st.booleans()):
      a['margin'] = fmt(draw(num(0, 0.05, 3)))
      if draw(st.booleans()):
        a['gap'] = fmt(draw(num(0, 0.02, 3)))
    if draw(st.integers(0, 3)) == 0:
      a['contype'] = str(draw(st.integers(0, 3)))
      a['conaffinity'] = str(draw(st.integers(0, 3)))
  else:
    a['contype'] = '0'
    a['conaffinity'] = '0'
  return '<geom%s/>' % _attrs(a), t


@st.composite
def joint(draw, name, jt, limits=True, passive=True, frictionloss=True, armature=True):
  a = dict(name=name, type=jt)
  if jt == 'free':
    return '<joint%s/>' % _attrs(a), a
  if jt != 'ball':
    ax = [draw(st.integers(-2, 2)) for _ in range(3)]
    if not any(ax):
      ax = [0, 0, 1]
    a['axis'] = fmt(ax)
  if draw(st.booleans()):
    a['pos'] = fmt([draw(num(-0.2, 0.2)) for _ in range(3)])
  if limits and draw(st.integers(0, 2)) == 0:
    if jt == 'ball':
      a['range'] = fmt([0, draw(st.integers(20, 120))])
    elif jt == 'hinge':
      a['range'] = fmt([-draw(st.integers(5, 120)), draw(st.integers(5, 120))])
    else:
      a['range'] = fmt([-draw(num(0.05, 0.5)), draw(num(0.05, 0.5))])
    a['limited'] = 'true'
  if passive:
    if draw(st.booleans()):
      a['damping'] = fmt(draw(num(0, 2)))
    if draw(st.integers(0, 2)) == 0:
      a['stiffness'] = fmt(draw(num(0, 20, 1)))
      if jt in ('hinge', 'slide') and draw(st.booleans()):
        a['springref'] = fmt(draw(num(-0.3, 0.3)))
  if armature and draw(st.integers(0, 2)) == 0:
    a['armature'] = fmt(draw(num(0, 0.5)))
  if frictionloss and draw(st.integers(0, 3)) == 0:
    a['frictionloss'] = fmt(draw(num(0, 1)))
  if jt in ('hinge', 'slide') and draw(st.integers(0, 3)) == 0:
    a['ref'] = fmt(draw(num(-0.3, 0.3)) if jt == 'slide' else draw(st.integers(-30, 30)))
  return '<joint%s/>' % _attrs(a), a


@st.composite
def options(draw, integrators=('Euler', 'RK4', 'implicit', 'implicitfast'), solvers=('PGS', 'CG', 'Newton'),
            cones=('pyramidal', 'elliptic'), jacobians=('dense', 'sparse', 'auto'), flags=True, gravity=True,
            timestep=(0.0005, 0.01), islands=True, sleep=False, fluid=False, extra=None, stress=False):
  a = dict(timestep=fmt(draw(num(timestep[0], timestep[1], 4))))
  a['integrator'] = draw(st.sampled_from(list(integrators)))
  a['solver'] = draw(st.sampled_from(list(solvers)))
  a['cone'] = draw(st.sampled_from(list(cones)))
  a['jacobian'] = draw(st.sampled_from(list(jacobians)))
  if gravity is True:
    if draw(st.integers(0, 3)) == 0:
      a['gravity'] = fmt([draw(num(-3, 3, 1)), draw(num(-3, 3, 1)), draw(num(-10, 2, 1))])
  elif gravity is False:
    a['gravity'] = '0 0 0'
  if draw(st.integers(0, 3)) == 0:
    a['iterations'] = str(draw(st.integers(1, 100)))
  if draw(st.integers(0, 3)) == 0:
    a['impratio'] = fmt(draw(num(0.5, 10, 1)))
  if draw(st.integers(0, 4)) == 0:
    a['noslip_iterations'] = str(draw(st.integers(0, 5)))
  if fluid and draw(st.booleans()):
    a['density'] = fmt(draw(num(0, 1000, 0)))
    a['viscosity'] = fmt(draw(num(0, 1, 3)))
    if draw(st.booleans()):
      a['wind'] = fmt([draw(num(-2, 2, 1)) for _ in range(3)])
  if extra:
    a.update(extra)
  fl = {}
  if stress:
    # option combinations under which hidden state matters most: cold start, unconverged solver, noslip
    if draw(st.integers(0, 2)) == 0:
      fl['warmstart'] = 'disable'
    if draw(st.integers(0, 2)) == 0:
      a['iterations'] = str(draw(st.sampled_from([1, 2, 3, 5])))
    if draw(st.integers(0, 4)) == 0:
      a['noslip_iterations'] = str(draw(st.integers(1, 3)))
    if draw(st.integers(0, 4)) == 0:
      a['tolerance'] = '0'
    if 'PGS' in solvers and draw(st.integers(0, 5)) == 0:
      # the combination in which a dual solver's starting iterate is visible in the result: cold start, unconverged PGS
      a['solver'] = 'PGS'
      fl['warmstart'] = 'disable'
      a['iterations'] = str(draw(st.sampled_from([1, 2, 3, 5])))
      a['tolerance'] = '0'
  if flags:
    for f in ('warmstart', 'filterparent', 'refsafe', 'eulerdamp', 'midphase', 'actuation', 'limit', 'frictionloss',
              'equality', 'spring', 'damper'):
      if draw(st.integers(0, 9)) == 0:
        fl[f] = 'disable'
    for f in ('energy', 'multiccd', 'fwdinv', 'override'):
      if draw(st.integers(0, 6)) == 0:
        fl[f] = 'enable'
  if islands is True:
    if draw(st.integers(0, 2)) == 0:
      fl['island'] = 'disable'
  elif islands is False:
    fl['island'] = 'disable'
  if sleep:
    fl['sleep'] = 'enable'
  xml = '<option%s>' % _attrs(a)
  if fl:
    xml += '<flag%s/>' % _attrs(fl)
  xml += '</option>'
  return xml, dict(a, flags=fl)


@st.composite
def models(draw, max_bodies=5, min_bodies=1, joint_types=JOINT_TYPES, geom_types=GEOM_TYPES, plane=None,
           contacts=True, actuators=True, tendons=True, equalities=True, sensors=False, sites=True, mocap=False,
           keyframes=False, opt=None, opt_kwargs=None, joint_kwargs=None, geom_kwargs=None, max_joints=2,
           explicit_inertial=True, stateful_actuators=True, compiler=None, defaults=False, userdata=False, history=False,
           spread=1.0, static_geoms=True, cameras=False, lights=False):
  """Generate a model. Returns GenModel(xml, info)."""
  labels = set()
  nb = draw(st.integers(min_bodies, max_bodies))
  parents = [0] + [draw(st.integers(0, i)) for i in range(1, nb)]   # parent index: 0 = world, k>0 = body k-1... see below
  # body i (1..nb) has parent parents[i-1] in 0..i-1
  bodies = []
  jnts = []     # (name, type, body)
  hs_jnts = []  # hinge/slide names
  sitenames = []
  geomnames = []
  bodynames = []
  jk = dict(joint_kwargs or {})
  gk = dict(geom_kwargs or {})
  gk.setdefault('contacts', contacts)
  for i in range(1, nb + 1):
    par = parents[i - 1] if i > 1 else 0
    bname = 'b%d' % i
    bodynames.append(bname)
    a = dict(name=bname, pos=fmt([draw(num(-0.5 * spread, 0.5 * spread)), draw(num(-0.5 * spread, 0.5 * spread)),
                                  draw(num(0.0, 0.8 * spread)) if par == 0 else draw(num(-0.5 * spread, 0.5 * spread))]))
    o = draw(orientation())
    if o:
      a[o[0]] = o[1]
    ismocap = mocap and par == 0 and draw(st.integers(0, 3)) == 0
    inner = ''
    nj = 0
    if ismocap:
      a['mocap'] = 'true'
      labels.add('mocap')
    else:
      # joints
      allowed = [t for t in joint_types if t != 'free' or par == 0]
      if allowed:
        first = draw(st.sampled_from(allowed + (['none'] if i > 1 or len(allowed) == 0 else [])))
        if first == 'free':
          x, _ = draw(joint('j%d_0' % i, 'free'))
          inner += x
          jnts.append(('j%d_0' % i, 'free', bname))
          nj = 1
        elif first != 'none':
          njn = draw(st.integers(1, max_joints))
          for k in range(njn):
            hasball = first == 'ball' or any(t == 'ball' for (_, t, bb) in jnts if bb == bname)
            # a ball joint only as the first joint of a body, and no hinge after a ball: 4 rotational dofs about one
            # point make the inertia matrix singular (Newton then raises 'rank-deficient Hessian')
            rest = [t for t in allowed if t not in ('free', 'ball') and not (hasball and t == 'hinge')]
            if k > 0 and not rest:
              break
            jt = first if k == 0 else draw(st.sampled_from(rest))
            x, ja = draw(joint('j%d_%d' % (i, k), jt, **jk))
            inner += x
            jnts.append(('j%d_%d' % (i, k), jt, bname))
            if jt in ('hinge', 'slide'):
              hs_jnts.append('j%d_%d' % (i, k))
            nj += 1
          if njn > 1:
            labels.add('multijoint')
    # inertia
    if explicit_inertial and draw(st.integers(0, 4)) == 0:
      ia = dict(pos=fmt([draw(num(-0.1, 0.1)) for _ in range(3)]), mass=fmt(draw(num(0.1, 5))))
      d0, d1 = draw(num(0.01, 0.2, 3)), draw(num(0.01, 0.2, 3))
      d2 = draw(num(max(abs(d0 - d1), 0.001) + 0.001, d0 + d1, 3)) if d0 + d1 > abs(d0 - d1) + 0.002 else d0 + d1
      ia['diaginertia'] = fmt([d0, d1, d2])
      o2 = draw(orientation())
      if o2:
        ia[o2[0]] = o2[1]
      inner += '<inertial%s/>' % _attrs(ia)
      labels.add('inertial')
    ng = draw(st.integers(1, 2))
    for k in range(ng):
      x, gt = draw(geom('g%d_%d' % (i, k), geom_types, **gk))
      inner += x
      geomnames.append('g%d_%d' % (i, k))
      labels.add('geom:' + gt)
    if sites and draw(st.booleans()):
      sa = dict(name='s%d' % i, pos=fmt([draw(num(-0.2, 0.2)) for _ in range(3)]))
      o3 = draw(orientation())
      if o3:
        sa[o3[0]] = o3[1]
      inner += '<site%s/>' % _attrs(sa)
      sitenames.append('s%d' % i)
    if cameras and draw(st.integers(0, 3)) == 0:
      inner += '<camera name="c%d" pos="%s"/>' % (i, fmt([draw(num(-0.3, 0.3)) for _ in range(3)]))
    if lights and draw(st.integers(0, 3)) == 0:
      inner += '<light name="l%d" pos="%s"/>' % (i, fmt([draw(num(-0.3, 0.3)) for _ in range(3)]))
    bodies.append(dict(attrs=a, inner=inner, children=[], parent=par, nj=nj))
  for idx, b in enumerate(bodies):
    if b['parent'] > 0:
      bodies[b['parent'] - 1]['children'].append(idx)

  def render(idx):
    b = bodies[idx]
    return '<body%s>%s%s</body>' % (_attrs(b['attrs']), b['inner'], ''.join(render(c) for c in b['children']))

  world = ''
  useplane = draw(st.booleans()) if plane is None else plane
  if useplane:
    pa = dict(name='floor', type='plane', size='3 3 .1')
    if not contacts:
      pa['contype'] = '0'
      pa['conaffinity'] = '0'
    world += '<geom%s/>' % _attrs(pa)
    labels.add('plane')
  if static_geoms and contacts and draw(st.integers(0, 3)) == 0:
    x, gt = draw(geom('gw', geom_types, **gk))
    world += x
  if sites and draw(st.integers(0, 2)) == 0:
    world += '<site name="s0" pos="%s"/>' % fmt([draw(num(-0.5, 0.5)) for _ in range(3)])
    sitenames.append('s0')
  world += ''.join(render(i) for i, b in enumerate(bodies) if b['parent'] == 0)

  # tendons
  tendonx = ''
  tnames = []
  if tendons and draw(st.booleans()):
    nt = draw(st.integers(1, 2))
    for k in range(nt):
      ta = dict(name='t%d' % k)
      if draw(st.booleans()):
        ta['stiffness'] = fmt(draw(num(0, 20, 1)))
      if draw(st.booleans()):
        ta['damping'] = fmt(draw(num(0, 2)))
      if draw(st.integers(0, 3)) == 0:
        ta['frictionloss'] = fmt(draw(num(0, 1)))
      if draw(st.integers(0, 3)) == 0:
        ta['armature'] = fmt(draw(num(0, 0.2)))
      if draw(st.integers(0, 2)) == 0:
        ta['limited'] = 'true'
        ta['range'] = fmt([-draw(num(0.05, 1.0)), draw(num(0.05, 1.5))])
      if hs_jnts and (draw(st.booleans()) or len(sitenames) < 2):
        js = draw(st.lists(st.sampled_from(hs_jnts), min_size=1, max_size=3, unique=True))
        body = ''.join('<joint joint="%s" coef="%s"/>' % (j, fmt(draw(num(-2, 2, 1)) or 1.0)) for j in js)
        tendonx += '<fixed%s>%s</fixed>' % (_attrs(ta), body)
        tnames.append('t%d' % k)
        labels.add('tendon:fixed')
      elif len(sitenames) >= 2:
        ss = draw(st.lists(st.sampled_from(sitenames), min_size=2, max_size=3, unique=True))
        if 'range' in ta:
          ta['range'] = fmt([0, draw(num(0.5, 3.0))])
        body = ''.join('<site site="%s"/>' % s for s in ss)
        tendonx += '<spatial%s>%s</spatial>' % (_attrs(ta), body)
        tnames.append('t%d' % k)
        labels.add('tendon:spatial')

  # equality
  eqx = ''
  if equalities and draw(st.integers(0, 2)) == 0:
    ne = draw(st.integers(1, 2))
    for k in range(ne):
      kinds = []
      if len(bodynames) >= 1:
        kinds += ['connect', 'weld']
      if len(hs_jnts) >= 2:
        kinds.append('joint')
      if tnames:
        kinds.append('tendon')
      if not kinds:
        break
      kind = draw(st.sampled_from(kinds))
      ea = dict(name='e%d' % k)
      if draw(st.integers(0, 4)) == 0:
        ea['active'] = 'false'
      if kind in ('connect', 'weld'):
        b1 = draw(st.sampled_from(bodynames))
        others = [b for b in bodynames if b != b1]
        ea['body1'] = b1
        if others and draw(st.booleans()):
          ea['body2'] = draw(st.sampled_from(others))
        if kind == 'connect':
          ea['anchor'] = fmt([draw(num(-0.2, 0.2)) for _ in range(3)])
      elif kind == 'joint':
        j1, j2 = draw(st.lists(st.sampled_from(hs_jnts), min_size=2, max_size=2, unique=True))
        ea['joint1'] = j1
        ea['joint2'] = j2
        ea['polycoef'] = fmt([draw(num(-0.2, 0.2)), draw(num(-2, 2, 1)), 0, 0, 0])
      else:
        ea['tendon1'] = draw(st.sampled_from(tnames))
      eqx += '<%s%s/>' % (kind, _attrs(ea))
      labels.add('eq:' + kind)

  # actuators
  actx = ''
  anames = []
  if actuators and (hs_jnts or tnames or any(s != 's0' for s in sitenames)) and draw(st.integers(0, 3)) != 0:
    na = draw(st.integers(1, 3))
    for k in range(na):
      targets = []
      if hs_jnts:
        targets.append('joint')
      if tnames:
        targets.append('tendon')
      if sitenames and any(s != 's0' for s in sitenames):
        targets.append('site')
      tg = draw(st.sampled_from(targets))
      aa = dict(name='a%d' % k)
      if tg == 'joint':
        aa['joint'] = draw(st.sampled_from(hs_jnts))
      elif tg == 'tendon':
        aa['tendon'] = draw(st.sampled_from(tnames))
      else:
        aa['site'] = draw(st.sampled_from([s for s in sitenames if s != 's0']))
        aa['gear'] = fmt([draw(num(-1, 1, 1)) for _ in range(6)])
      kinds = ['motor', 'position', 'velocity', 'general']
      if stateful_actuators:
        kinds += ['intvelocity', 'general_dyn']
      if tg == 'joint':
        kinds.append('damper')
      kind = draw(st.sampled_from(kinds))
      if tg != 'site' and draw(st.booleans()):
        aa['gear'] = fmt(draw(num(-3, 3, 1)) or 1.0)
      if draw(st.booleans()):
        aa['ctrllimited'] = 'true'
        aa['ctrlrange'] = fmt([-draw(num(0.1, 2, 1)), draw(num(0.1, 2, 1))])
      if draw(st.integers(0, 2)) == 0:
        aa['forcelimited'] = 'true'
        aa['forcerange'] = fmt([-draw(num(0.1, 5, 1)), draw(num(0.1, 5, 1))])
      tag = kind
      if kind == 'position':
        aa['kp'] = fmt(draw(num(0.5, 50, 1)))
        if draw(st.booleans()):
          aa['kv'] = fmt(draw(num(0, 5, 1)))
      elif kind == 'velocity':
        aa['kv'] = fmt(draw(num(0.1, 10, 1)))
      elif kind == 'intvelocity':
        aa['kp'] = fmt(draw(num(0.5, 50, 1)))
        aa['actrange'] = fmt([-draw(num(0.1, 1, 1)), draw(num(0.1, 1, 1))])
      elif kind == 'damper':
        aa['kv'] = fmt(draw(num(0.1, 5, 1)))
        aa['ctrlrange'] = fmt([0, draw(num(0.1, 2, 1))])
        aa.pop('ctrllimited', None)
      elif kind == 'general':
        tag = 'general'
        aa['gainprm'] = fmt([draw(num(0.1, 10, 1)), 0, 0])
        aa['biastype'] = 'affine'
        aa['biasprm'] = fmt([draw(num(-1, 1, 1)), draw(num(-5, 0, 1)), draw(num(-1, 0, 1))])
      elif kind == 'general_dyn':
        tag = 'general'
        aa['dyntype'] = draw(st.sampled_from(['integrator', 'filter', 'filterexact']))
        aa['dynprm'] = fmt([draw(num(0.01, 1))])
        aa['gainprm'] = fmt([draw(num(0.1, 10, 1))])
        if draw(st.booleans()):
          aa['actlimited'] = 'true'
          aa['actrange'] = fmt([-draw(num(0.1, 1, 1)), draw(num(0.1, 1, 1))])
        if draw(st.booleans()):
          aa['actearly'] = 'true'
      if history and draw(st.integers(0, 2)) == 0:
        # history buffer of the control input (nsample) with optional delay and interpolation order
        aa['nsample'] = str(draw(st.integers(1, 4)))
        if draw(st.booleans()):
          aa['delay'] = fmt(draw(st.sampled_from([0.001, 0.003, 0.0075, 0.02])))
        if draw(st.booleans()):
          aa['interp'] = draw(st.sampled_from(['zoh', 'linear', 'cubic']))
        labels.add('act:history')
      actx += '<%s%s/>' % (tag, _attrs(aa))
      anames.append('a%d' % k)
      labels.add('act:' + kind)
      labels.add('trn:' + tg)

  # sensors (a generic sample; C28 has its own generator)
  sensx = ''
  if sensors:
    cands = []
    for jn, jt, _ in jnts:
      if jt in ('hinge', 'slide'):
        cands += ['<jointpos joint="%s"/>' % jn, '<jointvel joint="%s"/>' % jn, '<jointactuatorfrc joint="%s"/>' % jn]
      if jt == 'ball':
        cands += ['<ballquat joint="%s"/>' % jn, '<ballangvel joint="%s"/>' % jn]
    for s in sitenames:
      if s != 's0':
        cands += ['<accelerometer site="%s"/>' % s, '<gyro site="%s"/>' % s, '<velocimeter site="%s"/>' % s,
                  '<force site="%s"/>' % s, '<torque site="%s"/>' % s, '<touch site="%s"/>' % s]
      cands += ['<framepos objtype="site" objname="%s"/>' % s, '<framequat objtype="site" objname="%s"/>' % s,
                '<framelinvel objtype="site" objname="%s"/>' % s, '<framelinacc objtype="site" objname="%s"/>' % s]
    for b in bodynames:
      cands += ['<subtreecom body="%s"/>' % b, '<subtreelinvel body="%s"/>' % b, '<subtreeangmom body="%s"/>' % b,
                '<framepos objtype="body" objname="%s"/>' % b, '<frameangvel objtype="xbody" objname="%s"/>' % b]
    for t in tnames:
      cands += ['<tendonpos tendon="%s"/>' % t, '<tendonvel tendon="%s"/>' % t]
    for a_ in anames:
      cands += ['<actuatorpos actuator="%s"/>' % a_, '<actuatorvel actuator="%s"/>' % a_,
                '<actuatorfrc actuator="%s"/>' % a_]
    cands += ['<clock/>']
    chosen = draw(st.lists(st.sampled_from(cands), min_size=1, max_size=8))
    if history:
      # sampled / delayed sensors: history buffer (nsample), sampling interval [period, phase], delay, interpolation
      for ci in range(len(chosen)):
        if draw(st.integers(0, 2)) == 0:
          extra = ' nsample="%d"' % draw(st.integers(1, 4))
          hk = draw(st.integers(0, 3))
          if hk in (0, 1):
            period = draw(st.sampled_from([0.003, 0.007, 0.01, 0.025]))
            extra += (' interval="%s"' % fmt(period) if hk == 0 else
                      ' interval="%s %s"' % (fmt(period), fmt(-period * draw(st.sampled_from([0.0, 0.25, 0.5])))))
          if hk in (1, 2):
            extra += ' delay="%s"' % fmt(draw(st.sampled_from([0.001, 0.004, 0.0075, 0.02])))
          if draw(st.booleans()):
            extra += ' interp="%s"' % draw(st.sampled_from(['zoh', 'linear', 'cubic']))
          chosen[ci] = chosen[ci].replace('/>', extra + '/>')
          labels.add('sensor:history')
    sensx = ''.join(chosen)
    labels.add('sensors')

  keyx = ''
  optx, optinfo = (opt, {}) if isinstance(opt, str) else draw(options(**(opt_kwargs or {})))
  comp = compiler if compiler is not None else ''
  sizex = ''
  if userdata and draw(st.booleans()):
    sizex = '<size nuserdata="%d"/>' % draw(st.integers(1, 5))
  xml = '<mujoco>%s%s%s<worldbody>%s</worldbody>' % (comp, optx, sizex, world)
  if tendonx:
    xml += '<tendon>%s</tendon>' % tendonx
  if eqx:
    xml += '<equality>%s</equality>' % eqx
  if actx:
    xml += '<actuator>%s</actuator>' % actx
  if sensx:
    xml += '<sensor>%s</sensor>' % sensx
  xml += keyx + '</mujoco>'
  for _, jt, _ in jnts:
    labels.add('jnt:' + jt)
  if nb >= 3:
    labels.add('nbody>=3')
  if any(p > 0 for p in parents[1:]):
    labels.add('depth>=2')
  info = dict(nbody=nb, joints=jnts, hs_joints=hs_jnts, sites=sitenames, geoms=geomnames, bodies=bodynames,
              tendons=tnames, actuators=anames, option=optinfo, labels=sorted(labels))
  return GenModel(xml, info)


# ---------------------------------------------------------------- states

def normalize_quats(m, qpos):
  """Normalize free/ball quaternions of a qpos vector in place (numpy, model arrays)."""
  for j in range(m.njnt):
    t = int(m.jnt_type[j])
    a = int(m.jnt_qposadr[j])
    if t == 0:
      q = qpos[a + 3:a + 7]
    elif t == 1:
      q = qpos[a:a + 4]
    else:
      continue
    n = np.linalg.norm(q)
    if n < 1e-9:
      q[:] = [1, 0, 0, 0]
    else:
      q /= n
  return qpos


@st.composite
def state_seed(draw):
  """A compact seed from which a state for any model is derived deterministically (numpy RNG seeded by it)."""
  return draw(st.integers(0, 2 ** 31 - 1))


def apply_state(lib, m, d, seed, vel_scale=1.0, pos_scale=1.0, ctrl=True, forces=True, act=True, mocap=True, mocap_nonunit=False):
  """Set a pseudo-random state derived from an integer seed (all randomness comes from Hypothesis via seed)."""
  rng = np.random.RandomState(seed)
  nq, nv = m.nq, m.nv
  qpos = np.array(m.qpos0, dtype=np.float64).copy()
  # perturb on the manifold through mj_integratePos
  dq = rng.uniform(-1, 1, nv) * pos_scale
  if nv:
    lib.mj_integratePos(m, qpos, dq, 1.0)
  d.qpos[:] = qpos
  d.qvel[:] = rng.uniform(-1, 1, nv) * vel_scale
  if m.na and act:
    d.act[:] = rng.uniform(-1, 1, m.na)
  if m.nu and ctrl:
    d.ctrl[:] = rng.uniform(-2, 2, m.nu)
  if forces:
    if rng.rand() < 0.5 and nv:
      d.qfrc_applied[:] = rng.uniform(-1, 1, nv)
    if rng.rand() < 0.5:
      d.xfrc_applied[1:] = rng.uniform(-1, 1, (m.nbody - 1, 6))
  if m.nmocap and mocap:
    d.mocap_pos[:] = d.mocap_pos + rng.uniform(-0.2, 0.2, (m.nmocap, 3))
    q = rng.normal(size=(m.nmocap, 4))
    d.mocap_quat[:] = q / np.linalg.norm(q, axis=1, keepdims=True)
    if mocap_nonunit and rng.randint(2):
      # a non-unit mocap_quat is accepted user input: mj_kinematics normalises a local copy and must leave the state alone
      d.mocap_quat[:] = d.mocap_quat * rng.uniform(0.5, 2.0, (m.nmocap, 1))
  return rng
