"""Build small native helper shared objects (C or C++) from /verif/native/<ID>/ against a variant of the tree.

  so = nativeso.build_so('c19_helper', [path], 'asan')   -> path of the .so in /verif/.cache/bin (content addressed)
The helper is linked against the variant's libmujoco_vf (load that first with mj.load(variant)).
"""
import os
import subprocess
import sys

from . import build as vb


def build_so(name, sources, variant='rel', repo=None, extra_cflags=()):
  repo = repo or vb.REPO
  v = vb.VARIANTS[variant]
  lib = vb.build(variant, repo)
  hd = vb.header_digest(repo)
  key = vb._sha(name, variant, hd, lib, ' '.join(extra_cflags), *[vb._read(s) for s in sources])
  bindir = os.path.join(vb.CACHE, 'bin')
  os.makedirs(bindir, exist_ok=True)
  out = os.path.join(bindir, '%s_%s_%s.so' % (name, variant, key[:16]))
  if os.path.exists(out):
    return out
  objs = []
  for i, s in enumerate(sources):
    iscxx = s.endswith(('.cc', '.cpp'))
    obj = out + '.%d.o.tmp%d' % (i, os.getpid())
    cmd = [vb.CLANGXX if iscxx else vb.CLANG] + (['-std=c++20'] if iscxx else ['-std=gnu11']) + vb.COMMON_DEFS \
        + v['cflags'] + list(extra_cflags) + vb.includes(repo) + ['-c', s, '-o', obj]
    p = subprocess.run(cmd, capture_output=True, text=True)
    if p.returncode != 0:
      print(p.stderr[-6000:], file=sys.stderr)
      raise vb.BuildError('helper compile failed: ' + s)
    objs.append(obj)
  tmp = out + '.tmp%d' % os.getpid()
  cmd = [vb.CLANGXX, '-shared', '-o', tmp] + objs + [lib, '-Wl,-rpath,' + os.path.dirname(lib)] + v['ldflags'] \
      + ['-lpthread', '-ldl', '-lm']
  p = subprocess.run(cmd, capture_output=True, text=True)
  for o in objs:
    try:
      os.unlink(o)
    except OSError:
      pass
  if p.returncode != 0:
    print(p.stderr[-6000:], file=sys.stderr)
    raise vb.BuildError('helper link failed: ' + name)
  os.replace(tmp, out)
  return out
