"""Documented actuator laws (numpy only), written from /repo/doc, NOT from engine_forward.c / engine_util_misc.c.

Sources (all under /repo/doc):
  computation/index.rst  "Actuation model": Transmission, Stateful actuators (act_dot table, filterexact integral,
                          actearly), Force generation (p = a*(w or u) + b0 + b1*l + b2*ldot, qfrc = sum_k grad l_k p_k)
  XMLreference.rst       actuator/general (ctrllimited/forcelimited/actlimited, gear, joint/jointinparent/site/refsite/
                          cranksite/slidersite/tendon/body, dyntype/gaintype/biastype tables, actearly), the shortcut
                          tables (motor, position, velocity, intvelocity, damper, cylinder, muscle, adhesion, pid,
                          orientation), joint/tendon actuatorfrcrange, actuatorgravcomp, option/actuatorgroupdisable,
                          flag/clampctrl, flag/actuation
  modeling.rst           "Force limits", "Activation limits", "Muscles" (scaling, FLV, activation dynamics)
  _static/FLV.m          the documented FLV curve shapes
  APIreference           mju_sigmoid (quintic)

Where the documentation and the tree's two independent implementations (C engine and mjx/_src/support.py) disagree
(FLV.m has an extra 0.15*bump in FL and a cubic passive curve), both variants are provided: *_doc is the literal
documentation, *_ref the differential reference transcribed from mjx/_src/support.py (python, not the C under test).
"""
import math

import numpy as np

# enum values are passed in by the caller (read from the tree headers by vf.mj); names only here
MINVAL = 1e-15


# ------------------------------------------------------------------ small quaternion algebra (w first)

def qmul(a, b):
  aw, ax, ay, az = a
  bw, bx, by, bz = b
  return np.array([aw * bw - ax * bx - ay * by - az * bz,
                   aw * bx + ax * bw + ay * bz - az * by,
                   aw * by - ax * bz + ay * bw + az * bx,
                   aw * bz + ax * by - ay * bx + az * bw])


def qconj(q):
  return np.array([q[0], -q[1], -q[2], -q[3]])


def qnorm(q):
  q = np.asarray(q, dtype=np.float64)
  n = np.linalg.norm(q)
  return q / n if n > 0 else np.array([1.0, 0, 0, 0])


def qrot(q, v):
  """rotate vector v by unit quaternion q."""
  return qmul(qmul(q, np.array([0.0, v[0], v[1], v[2]])), qconj(q))[1:]


def qlog(q):
  """rotation vector (angle in (-pi, pi]) of a unit quaternion: 'angle-axis representation'."""
  q = np.asarray(q, dtype=np.float64)
  s = np.linalg.norm(q[1:])
  if s < 1e-300:
    return np.zeros(3)
  ang = 2 * math.atan2(s, q[0])
  if ang > math.pi:
    ang -= 2 * math.pi
  return q[1:] / s * ang


def qexp(v):
  v = np.asarray(v, dtype=np.float64)
  n = np.linalg.norm(v)
  if n < 1e-15:
    return np.array([1.0, 0, 0, 0])
  return np.concatenate([[math.cos(n / 2)], math.sin(n / 2) * v / n])


def mat2quat(R):
  """unit quaternion of a rotation matrix (Shepperd)."""
  R = np.asarray(R, dtype=np.float64).reshape(3, 3)
  t = np.trace(R)
  c = [t, R[0, 0], R[1, 1], R[2, 2]]
  k = int(np.argmax(c))
  if k == 0:
    w = math.sqrt(max(1 + t, 0)) / 2
    q = [w, (R[2, 1] - R[1, 2]) / (4 * w), (R[0, 2] - R[2, 0]) / (4 * w), (R[1, 0] - R[0, 1]) / (4 * w)]
  elif k == 1:
    x = math.sqrt(max(1 + R[0, 0] - R[1, 1] - R[2, 2], 0)) / 2
    q = [(R[2, 1] - R[1, 2]) / (4 * x), x, (R[0, 1] + R[1, 0]) / (4 * x), (R[0, 2] + R[2, 0]) / (4 * x)]
  elif k == 2:
    y = math.sqrt(max(1 - R[0, 0] + R[1, 1] - R[2, 2], 0)) / 2
    q = [(R[0, 2] - R[2, 0]) / (4 * y), (R[0, 1] + R[1, 0]) / (4 * y), y, (R[1, 2] + R[2, 1]) / (4 * y)]
  else:
    z = math.sqrt(max(1 - R[0, 0] - R[1, 1] + R[2, 2], 0)) / 2
    q = [(R[1, 0] - R[0, 1]) / (4 * z), (R[0, 2] + R[2, 0]) / (4 * z), (R[1, 2] + R[2, 1]) / (4 * z), z]
  return qnorm(q)


# ------------------------------------------------------------------ controls

def clip(x, lo, hi):
  return min(max(x, lo), hi)


def effective_ctrl(ctrl, limited, crange, clamp_enabled=True):
  """general/ctrllimited: 'the control input to this actuator is automatically clamped to ctrlrange at runtime';
  flag/clampctrl: 'disables the clamping of control inputs to all actuators'.  Per control (nu)."""
  u = np.array(ctrl, dtype=np.float64)
  if clamp_enabled:
    for i in range(len(u)):
      if limited[i]:
        u[i] = clip(u[i], crange[i][0], crange[i][1])
  return u


# ------------------------------------------------------------------ activation dynamics

def sigmoid(x):
  """mju_sigmoid (APIreference): 0 for x<=0, 6x^5-15x^4+10x^3 on (0,1), 1 for x>=1."""
  if x <= 0:
    return 0.0
  if x >= 1:
    return 1.0
  return x * x * x * (x * (6 * x - 15) + 10)


def muscle_act_dot(ctrl, act, prm):
  """modeling.rst Muscles: d act/dt = (ctrl - act)/tau(ctrl, act); 'Internally the control signal is clamped to
  [0, 1]'; tau = tau_act*(0.5+1.5 act) if ctrl-act>0 else tau_deact/(0.5+1.5 act); tausmooth>0 replaces the switch
  by mju_sigmoid over (ctrl-act) +- tausmooth/2.  Only meaningful for act in [0, 1] (the documentation does not
  define tau outside; callers restrict the assertion to that domain)."""
  tau_act, tau_deact, smooth = prm[0], prm[1], prm[2]
  u = clip(ctrl, 0.0, 1.0)
  ta = tau_act * (0.5 + 1.5 * act)
  td = tau_deact / (0.5 + 1.5 * act)
  dctrl = u - act
  if smooth <= 0:
    tau = ta if dctrl > 0 else td
  else:
    tau = td + (ta - td) * sigmoid(dctrl / smooth + 0.5)
  return dctrl / tau


def act_dot(dyn, ctrl, act, dynprm):
  """dyntype table: integrator act_dot = ctrl; filter/filterexact act_dot = (ctrl - act)/dynprm[0];
  muscle act_dot = mju_muscleDynamics.  dyn is one of 'integrator','filter','filterexact','muscle'."""
  if dyn == 'integrator':
    return ctrl
  if dyn in ('filter', 'filterexact'):
    return (ctrl - act) / dynprm[0]
  if dyn == 'muscle':
    return muscle_act_dot(ctrl, act, dynprm)
  raise ValueError(dyn)


def next_act(dyn, act, adot, dynprm, h, limited, arange):
  """w_{i+1}: Euler  w + h*w_dot ; filterexact  w + (u - w)(1 - exp(-h/t)) = w + w_dot*t*(1 - exp(-h/t));
  then 'the activation ... is automatically clamped to actrange' (actlimited)."""
  if dyn == 'filterexact':
    t = dynprm[0]
    w = act + adot * t * (1 - math.exp(-h / t))
  else:
    w = act + h * adot
  if limited:
    w = clip(w, arange[0], arange[1])
  return w


# ------------------------------------------------------------------ muscle FLV

def _bump(L, A, mid, B):
  """FLV.m: skewed bump function, quadratic spline."""
  left = 0.5 * (A + mid)
  right = 0.5 * (mid + B)
  if L <= A or L >= B:
    return 0.0
  if L < left:
    x = (L - A) / (left - A)
    return 0.5 * x * x
  if L < mid:
    x = (mid - L) / (mid - left)
    return 1 - 0.5 * x * x
  if L < right:
    x = (L - mid) / (right - mid)
    return 1 - 0.5 * x * x
  x = (B - L) / (B - right)
  return 0.5 * x * x


def FL_doc(L, lmin, lmax):
  """FLV.m 'length-active': bump(L,lmin,1,lmax) + 0.15*bump(L,lmin,0.5*(lmin+0.95),0.95)."""
  return _bump(L, lmin, 1.0, lmax) + 0.15 * _bump(L, lmin, 0.5 * (lmin + 0.95), 0.95)


def FL_ref(L, lmin, lmax):
  """differential reference (mjx/_src/support.py muscle_gain_length): the main bump only."""
  return _bump(L, lmin, 1.0, lmax)


def FV(V, fvmax):
  """FLV.m 'velocity-active' with V already divided by vmax."""
  c = fvmax - 1
  if V <= -1:
    return 0.0
  if V <= 0:
    return (V + 1) * (V + 1)
  if V <= c:
    return fvmax - (c - V) * (c - V) / c
  return fvmax


def FP_doc(L, lmax, fpmax):
  """FLV.m 'length-passive': 0 (L<=1); 0.25*fpmax*x^3, x=(L-1)/(b-1) (L<=b); 0.25*fpmax*(1+3x), x=(L-b)/(b-1)."""
  b = 0.5 * (1 + lmax)
  if L <= 1:
    return 0.0
  if L <= b:
    x = (L - 1) / (b - 1)
    return 0.25 * fpmax * x * x * x
  x = (L - b) / (b - 1)
  return 0.25 * fpmax * (1 + 3 * x)


def FP_ref(L, lmax, fpmax):
  """differential reference (mjx/_src/support.py muscle_bias): half-quadratic to b, linear beyond."""
  b = 0.5 * (1 + lmax)
  if L <= 1:
    return 0.0
  if L <= b:
    x = (L - 1) / (b - 1)
    return fpmax * 0.5 * x * x
  x = (L - b) / (b - 1)
  return fpmax * (0.5 + x)


def muscle_scaling(length, velocity, lengthrange, acc0, prm):
  """modeling.rst: (lengthrange[k] - LT)/L0 = range[k]  =>  L0 = (lr1-lr0)/(r1-r0), LT = lr0 - r0*L0;
  L = (length - LT)/L0, V = velocity/L0 ('vmax ... in units of L0 per second' => V/vmax is the FV argument);
  F0 = force if force>=0 else scale/acc0.  prm = (range0, range1, force, scale, lmin, lmax, vmax, fpmax, fvmax)."""
  r0, r1, force, scale = prm[0], prm[1], prm[2], prm[3]
  L0 = (lengthrange[1] - lengthrange[0]) / (r1 - r0)
  LT = lengthrange[0] - r0 * L0
  L = (length - LT) / L0
  V = velocity / L0
  F0 = force if force >= 0 else scale / acc0
  return L, V, F0


def muscle_gain(length, velocity, lengthrange, acc0, prm, variant='doc'):
  """gain = -F0 * FL(L) * FV(V/vmax)   (actuator_force = -FLV*F0, FLV = FL*FV*act + FP)."""
  L, V, F0 = muscle_scaling(length, velocity, lengthrange, acc0, prm)
  fl = (FL_doc if variant == 'doc' else FL_ref)(L, prm[4], prm[5])
  return -F0 * fl * FV(V / prm[6], prm[8])


def muscle_bias(length, lengthrange, acc0, prm, variant='doc'):
  L, _, F0 = muscle_scaling(length, 0.0, lengthrange, acc0, prm)
  fp = (FP_doc if variant == 'doc' else FP_ref)(L, prm[5], prm[7])
  return -F0 * fp


# ------------------------------------------------------------------ gain / bias / force

def gain(gtype, prm, length, velocity, lengthrange=None, acc0=None, variant='doc'):
  """gaintype table: fixed gainprm[0]; affine gainprm[0]+gainprm[1]*length+gainprm[2]*velocity; muscle."""
  if gtype == 'fixed':
    return prm[0]
  if gtype == 'affine':
    return prm[0] + prm[1] * length + prm[2] * velocity
  if gtype == 'muscle':
    return muscle_gain(length, velocity, lengthrange, acc0, prm, variant)
  raise ValueError(gtype)


def bias(btype, prm, length, velocity, lengthrange=None, acc0=None, variant='doc'):
  """biastype table: none 0; affine biasprm[0]+biasprm[1]*length+biasprm[2]*velocity; muscle."""
  if btype == 'none':
    return 0.0
  if btype == 'affine':
    return prm[0] + prm[1] * length + prm[2] * velocity
  if btype == 'muscle':
    return muscle_bias(length, lengthrange, acc0, prm, variant)
  raise ValueError(btype)


def wrap_nearest(u, length, period):
  """'the force uses the setpoint representative nearest the current angle' (changelog / general/joint)."""
  return u - period * round((u - length) / period)


def pid_force(upos, uvel, uff, length, velocity, kp, kv, ki, z):
  """actuator/pid: kp*(u_pos - l) + kv*(u_vel - v) [+ ff] [+ ki*act]; absent inputs are zero."""
  return kp * (upos - length) + kv * (uvel - velocity) + uff + ki * z


def pid_act_dot(upos, length, z, imax, period=0.0):
  """ki: 'the position error is integrated in act'; imax: 'accumulation stops beyond +-imax' (0 = unclamped)."""
  err = upos - length
  if period > 0:
    err -= period * round(err / period)
  if imax > 0:
    if z > imax:
      err = min(err, 0.0)
    elif z < -imax:
      err = max(err, 0.0)
  return err


def so3_force(q_cur, q_tgt, omega, kp, kv):
  """actuator/orientation: force = kp*log(q^-1 q_target) - kv*omega, expressed in the child frame."""
  e = qlog(qmul(qconj(qnorm(q_cur)), qnorm(q_tgt)))
  return kp * e - kv * np.asarray(omega, dtype=np.float64)


def clamp_force(f, limited, frange):
  return clip(f, frange[0], frange[1]) if limited else f


def clamp_norm(f, limited, frange):
  """orientation/forcerange: 'The torque is clamped on its norm, preserving its direction'."""
  f = np.asarray(f, dtype=np.float64)
  n = np.linalg.norm(f)
  if limited and n > frange[1]:
    return f * (frange[1] / n)
  return f


def group_disabled(group, disableactuator):
  """option/actuatorgroupdisable: 'implemented as an integer bitfield, 0 <= group <= 30'."""
  return 0 <= group <= 30 and bool((int(disableactuator) >> int(group)) & 1)


# ------------------------------------------------------------------ transmissions (pure geometry parts)

def ball_length(quat, gear3):
  """general/joint, ball: 'dot-product between this gear axis and the angle-axis representation of the joint
  quaternion'."""
  return float(np.dot(np.asarray(gear3, dtype=np.float64), qlog(qnorm(quat))))


def ball_moment(quat, gear3, inparent):
  """ball joint dofs are angular velocity in the child frame: `joint` -> gear axis is given in the child frame
  (moment = gear); `jointinparent` -> axis given in the parent frame: express it in the child frame, R(q)^T gear."""
  g = np.asarray(gear3, dtype=np.float64)
  if not inparent:
    return g
  return qrot(qconj(qnorm(quat)), g)


def free_moment(quat, gear6, inparent):
  """free joint: translation axis in the world frame (linear dofs are world-frame), rotation axis in the child
  frame (`joint`) or world frame (`jointinparent`); rotational dofs are child-frame."""
  g = np.asarray(gear6, dtype=np.float64)
  rot = g[3:] if not inparent else qrot(qconj(qnorm(quat)), g[3:])
  return np.concatenate([g[:3], rot])


def slidercrank_residual(length_over_gear, crank_pos, slider_pos, slider_zaxis, rod):
  """cranksite = pin joining crank and rod, slidersite = pin joining slider and rod, slider moves along the z axis
  of the slidersite frame, cranklength = length of the connecting rod: the slider pin at slider_pos + s*z must be
  at distance rod from the crank pin.  Returns | |crank - (slider + s z)| - rod |."""
  p = np.asarray(slider_pos, dtype=np.float64) + length_over_gear * np.asarray(slider_zaxis, dtype=np.float64)
  return abs(np.linalg.norm(np.asarray(crank_pos, dtype=np.float64) - p) - rod)


def slidercrank_det(crank_pos, slider_pos, slider_zaxis, rod):
  """discriminant of the quadratic |v - s a|^2 = rod^2 in s (v = crank - slider): (a.v)^2 + rod^2 - v.v ;
  negative: the rod cannot reach (no real solution)."""
  v = np.asarray(crank_pos, dtype=np.float64) - np.asarray(slider_pos, dtype=np.float64)
  a = np.asarray(slider_zaxis, dtype=np.float64)
  av = float(np.dot(a, v))
  return av * av + rod * rod - float(np.dot(v, v))
