"""Reference model of the documented constraint optimisation problem (doc/computation/index.rst, "Constraint solver").

Everything here is derived from the documentation, not from engine_core_constraint.c / engine_solver.c:

  reduced primal (eq:reduced):   cost(a) = 1/2 (a-a0)' M (a-a0) + s(J a - aref)
  dual (eq:dual) and the inverse-dynamics form:  f(y) = argmin_{lam in Omega} 1/2 lam' R lam + lam' y ,  y = J a - aref
  so that                        s(y) = -min_{lam in Omega} (1/2 lam' R lam + lam' y),   grad s(y) = -f(y)
  Omega: equality rows free; friction-loss rows |lam| <= eta; limit / frictionless / pyramidal rows lam >= 0;
         elliptic contact blocks  lam_1 >= 0, lam_1^2 >= sum_i lam_i^2 / mu_{i-1}^2   (doc "Friction cones").

The soft-constraint penalty s is therefore evaluated through its *definition* as the conjugate of the dual problem
(one small convex projection per conceptual constraint) - no zone formulas of the C code are used.  For an elliptic
block the projection is solved from its KKT system by a scalar root find; when the weights R_i mu_i^2 of the friction
rows coincide (the "coupling of the diagonal values of R" that the documentation says is enforced) the root is
available in closed form, otherwise a bracketing root finder is used.

Strong convexity (doc "Warmstart" paragraph): every zone has curvature >= M, hence for any point a
  1/2 |a - a*|_M^2 <= cost(a) - cost* <= 1/2 g' M^-1 g,   g = grad cost(a)
which gives a certified distance-to-optimum  delta(a) = sqrt(g' M^-1 g)  in the M-norm.
"""
import numpy as np

# constraint types in the documented order (mjtConstraint)
EQUALITY, FRICTION_DOF, FRICTION_TENDON, LIMIT_JOINT, LIMIT_TENDON, CONTACT_FRICTIONLESS, CONTACT_PYRAMIDAL, \
    CONTACT_ELLIPTIC = range(8)


def solver_stats(lib, d):
  """numpy structured view of d.solver (mjNISLAND*mjNSOLVER entries)."""
  import ctypes
  f = lib.layout['mjData']['fields']['solver']
  dt = lib.struct_dtype('mjSolverStat')
  n = lib.enums.mjNISLAND * lib.enums.mjNSOLVER
  buf = (ctypes.c_char * (n * dt.itemsize)).from_address(d.ptr + f['off'])
  return np.frombuffer(buf, dtype=dt).reshape(lib.enums.mjNISLAND, lib.enums.mjNSOLVER)


def dense_J(lib, m, d):
  """efc_J as a dense (nefc, nv) array, whatever the storage."""
  nefc, nv = int(d.nefc), int(m.nv)
  if nefc == 0:
    return np.zeros((0, nv))
  J = np.asarray(d.efc_J, dtype=np.float64)
  if lib.mj_isSparse(m):
    out = np.zeros((nefc, nv))
    nnz = np.asarray(d.efc_J_rownnz)
    adr = np.asarray(d.efc_J_rowadr)
    col = np.asarray(d.efc_J_colind)
    for i in range(nefc):
      a, n = int(adr[i]), int(nnz[i])
      np.add.at(out[i], col[a:a + n], J[a:a + n])
    return out
  return J[:nefc * nv].reshape(nefc, nv).copy()


class Problem:
  """The documented optimisation problem with data taken from an mjData after the position/velocity/acceleration
  stages (engine's own M, qacc_smooth, efc_J, efc_aref, efc_R, efc_frictionloss, contact friction/dim)."""

  def __init__(self, lib, m, d):
    self.nv = nv = int(m.nv)
    self.nefc = nefc = int(d.nefc)
    self.M = lib.fullM(m, d)
    self.a0 = np.array(d.qacc_smooth, dtype=np.float64)
    self.J = dense_J(lib, m, d)
    self.aref = np.array(d.efc_aref, dtype=np.float64)[:nefc]
    self.R = np.array(d.efc_R, dtype=np.float64)[:nefc]
    self.D = np.array(d.efc_D, dtype=np.float64)[:nefc]
    self.floss = np.array(d.efc_frictionloss, dtype=np.float64)[:nefc]
    self.type = np.array(d.efc_type, dtype=np.int64)[:nefc]
    self.id = np.array(d.efc_id, dtype=np.int64)[:nefc]
    self.ne, self.nf, self.nl = int(d.ne), int(d.nf), int(d.nl)
    # magnitude of the terms that are added to form aref = -b (J v) - k r (+ Jdot v for connect / weld): only used as a
    # rounding scale when two computations of aref are compared
    qv = np.abs(np.array(d.qvel, dtype=np.float64))
    kbip = np.array(d.efc_KBIP, dtype=np.float64).reshape(-1, 4)[:nefc]
    pm = np.abs(np.array(d.efc_pos, dtype=np.float64)[:nefc]) + np.abs(np.array(d.efc_margin, dtype=np.float64)[:nefc])
    self.aref_scale = np.abs(self.aref) + kbip[:, 1] * (np.abs(self.J) @ qv) + kbip[:, 0] * pm + \
        (self.type == EQUALITY) * float(qv @ qv)
    t = self.type
    self.is_eq = t == EQUALITY
    self.is_fl = (t == FRICTION_DOF) | (t == FRICTION_TENDON)
    self.is_pos = (t == LIMIT_JOINT) | (t == LIMIT_TENDON) | (t == CONTACT_FRICTIONLESS) | (t == CONTACT_PYRAMIDAL)
    # elliptic blocks: (start row, dim, friction[:dim-1])
    self.ell = []
    con = d.contact
    i = 0
    while i < nefc:
      if t[i] == CONTACT_ELLIPTIC:
        c = int(self.id[i])
        dim = int(con['dim'][c])
        self.ell.append((i, dim, np.array(con['friction'][c][:dim - 1], dtype=np.float64)))
        i += dim
      else:
        i += 1
    self.Minv = None

  # ---- structural sanity of the problem data (documented layout)
  def layout_errors(self):
    errs = []
    t = self.type
    order = np.where(self.is_eq, 0, np.where(self.is_fl, 1, np.where((t == LIMIT_JOINT) | (t == LIMIT_TENDON), 2, 3)))
    if np.any(np.diff(order) < 0):
      errs.append('rows not ordered equality, friction loss, limit, contact')
    if int(self.is_eq.sum()) != self.ne or int(self.is_fl.sum()) != self.nf:
      errs.append('ne/nf do not match efc_type counts')
    if np.any(self.R <= 0) or not np.all(np.isfinite(self.R)):
      errs.append('R not positive')
    elif np.max(np.abs(self.R * self.D - 1)) > 1e-9:
      errs.append('D != 1/R')
    return errs

  # ---- dual projection: constraint force as a function of y = J a - aref
  def force(self, y):
    R = self.R
    f = -y / R
    f = np.where(self.is_fl, np.clip(f, -self.floss, self.floss), f)
    f = np.where(self.is_pos, np.maximum(f, 0.0), f)
    for (i, dim, mu) in self.ell:
      f[i:i + dim] = ell_project(R[i:i + dim], y[i:i + dim], mu)
    return f

  def s(self, y, f=None):
    if f is None:
      f = self.force(y)
    return -(0.5 * np.dot(self.R * f, f) + np.dot(f, y))

  def jar(self, a):
    return self.J @ a - self.aref

  def cost(self, a):
    da = a - self.a0
    return 0.5 * da @ (self.M @ da) + self.s(self.jar(a))

  def grad(self, a, with_force=False):
    f = self.force(self.jar(a))
    g = self.M @ (a - self.a0) - self.J.T @ f
    return (g, f) if with_force else g

  def noise(self, a, f):
    """Elementwise magnitude of the terms that are added to form the gradient (for eps-scaled tolerances):
    |M|(|a|+|a0|) + |J|'(|f| + D (|J|(|a|+|a0|) + |aref|)) .
    (a is reached from a0 by additive updates, so its components carry rounding errors of size eps*(|a|+|a0|).)"""
    aJ = np.abs(self.J)
    b = np.abs(a) + np.abs(self.a0)
    return np.abs(self.M) @ b + aJ.T @ (np.abs(f) + self.D * (aJ @ b + np.abs(self.aref)))

  def cost_scale(self, a):
    """Sum of the magnitudes of the terms of the cost (rounding scale of a cost value):
    1/2 (|a|+|a0|)'|M|(|a|+|a0|) + sum D (|J|(|a|+|a0|) + |aref|)^2 ."""
    b = np.abs(a) + np.abs(self.a0)
    return float(0.5 * b @ (np.abs(self.M) @ b) + np.sum(self.D * (np.abs(self.J) @ b + np.abs(self.aref)) ** 2))

  def resolvable(self, a, g, k=1e3):
    """True if a descent step from a can lower the cost by more than k*eps*(magnitude of the cost terms): with curvature at
    most M + J'DJ everywhere, the achievable decrease is at least 1/2 g'(M + J'DJ)^-1 g.  A solver that works with cost values
    cannot be blamed for a residual gradient below this resolution."""
    H = self.M + (self.J.T * self.D) @ self.J
    try:
      low = 0.5 * float(g @ np.linalg.solve(H, g))
    except np.linalg.LinAlgError:
      return False
    return low > k * np.finfo(float).eps * self.cost_scale(a)

  def delta(self, g):
    """Certified M-norm distance to the optimum from a gradient: sqrt(g' M^-1 g)."""
    if self.Minv is None:
      self.Minv = np.linalg.inv(self.M)
    return float(np.sqrt(max(g @ (self.Minv @ g), 0.0)))

  def mnorm(self, v):
    return float(np.sqrt(max(v @ (self.M @ v), 0.0)))

  # ---- curvature of s (only used to drive the reference minimiser; correctness never depends on it)
  def weights(self, y):
    R = self.R
    f = -y / R
    W = self.D.copy()
    W = np.where(self.is_fl & (np.abs(f) >= self.floss), 0.0, W)
    W = np.where(self.is_pos & (f <= 0), 0.0, W)
    Wm = np.diag(W)
    for (i, dim, mu) in self.ell:
      yb = y[i:i + dim]
      B = np.zeros((dim, dim))
      h = 1e-6 * (np.linalg.norm(yb) + 1e-12)
      for k in range(dim):
        e = np.zeros(dim)
        e[k] = h
        B[:, k] = -(ell_project(R[i:i + dim], yb + e, mu) - ell_project(R[i:i + dim], yb - e, mu)) / (2 * h)
      B = 0.5 * (B + B.T)
      w, V = np.linalg.eigh(B)
      Wm[i:i + dim, i:i + dim] = (V * np.maximum(w, 0)) @ V.T
    return Wm

  def zones(self, a):
    """Zone label of every conceptual constraint at acceleration a (for non-triviality rules and evidence)."""
    y = self.jar(a)
    R = self.R
    f = self.force(y)
    z = []
    for i in range(self.nefc):
      if self.is_eq[i]:
        z.append('eq')
      elif self.is_fl[i]:
        z.append('floss-sat' if abs(y[i] / R[i]) >= self.floss[i] else 'floss-quad')
      elif self.is_pos[i]:
        z.append('pos-active' if y[i] < 0 else 'pos-satisfied')
    for (i, dim, mu) in self.ell:
      fb = f[i:i + dim]
      u = -y[i:i + dim] / R[i:i + dim]
      if not np.any(fb):
        z.append('ell-top')
      elif np.allclose(fb, u, rtol=1e-12, atol=0):
        z.append('ell-bottom')
      else:
        z.append('ell-middle')
    return z


def ell_project(R, y, mu):
  """argmin_{lam in K} 1/2 sum R_i lam_i^2 + lam.y,  K = {lam_1 >= 0, lam_1^2 >= sum_{i>1} lam_i^2/mu_{i-1}^2}."""
  dim = len(y)
  # u_1 = lam_1, u_i = lam_i/mu_{i-1}: standard second-order cone u_1 >= |u_t| with
  # cost 1/2 w_1 u_1^2 + 1/2 sum w_i u_i^2 + b.u
  w = R.copy()
  w[1:] = R[1:] * mu * mu
  b = y.copy()
  b[1:] = y[1:] * mu
  u = -b / w
  ut = np.linalg.norm(u[1:])
  if u[0] >= ut:                       # unconstrained minimiser is inside the cone
    lam = u
  else:
    bt = np.linalg.norm(b[1:])
    if b[0] >= bt:                     # -b in the polar cone: the tip is optimal
      return np.zeros(dim)
    wt = w[1:]
    if np.max(wt) - np.min(wt) <= 1e-13 * np.max(wt):
      # equal friction weights c: u_t = -b_t/(c+k), rho = bt/(c+k), rho (w1-k) = -b1  =>  k closed form
      c = float(wt[0])
      k = (bt * w[0] + b[0] * c) / (bt - b[0])
    else:
      k = _ell_root(w, b)
    u = np.empty(dim)
    u[1:] = -b[1:] / (wt + k)
    u[0] = np.linalg.norm(u[1:])
    lam = u
  out = lam.copy()
  out[1:] = lam[1:] * mu
  return out


def _ell_root(w, b):
  """Root k of  phi(k) = rho(k) (w1 - k) + b1,  rho(k) = |b_t/(w_t+k)|  (KKT of the boundary solution)."""
  from scipy.optimize import brentq
  w1, b1 = w[0], b[0]
  wt, bt = w[1:], b[1:]

  def phi(k):
    return np.linalg.norm(bt / (wt + k)) * (w1 - k) + b1
  if b1 < 0:
    lo, hi = 0.0, w1
  else:
    lo, hi = w1, w1 + 1.0
    while phi(hi) > 0:
      hi = w1 + 2 * (hi - w1)
      if hi > 1e300:
        break
  return brentq(phi, lo, hi, xtol=1e-300, rtol=4.5e-16, maxiter=500)


def minimize(P, a_init=None, maxiter=100, gtol_rel=1e-13):
  """Damped Newton with an exact (bisection on the directional derivative) line search on the documented cost.
  Returns (a, info) with info = dict(iters, gnorm, delta, converged).  Convergence is *measured*: converged means
  |g| <= gtol_rel * |noise-free scale| or delta(a) below 1e-10 of |a|_M; the caller decides what to do otherwise."""
  a = P.a0.copy() if a_init is None else np.array(a_init, dtype=np.float64)
  best = None
  it = 0
  for it in range(maxiter):
    g, f = P.grad(a, with_force=True)
    scale = np.linalg.norm(P.noise(a, f)) + 1e-300
    gn = np.linalg.norm(g)
    if best is None or gn < best[0]:
      best = (gn, a.copy(), scale)
    if gn <= gtol_rel * scale:
      break
    H = P.M + P.J.T @ P.weights(P.jar(a)) @ P.J
    try:
      p = -np.linalg.solve(H, g)
    except np.linalg.LinAlgError:
      p = -np.linalg.solve(P.M, g)
    slope0 = g @ p
    if not slope0 < 0:
      p = -np.linalg.solve(P.M, g)
      slope0 = g @ p
      if not slope0 < 0:
        break

    def dphi(al):
      return P.grad(a + al * p) @ p
    # bracket
    lo, hi = 0.0, 1.0
    dh = dphi(hi)
    if abs(dh) <= 1e-14 * abs(slope0):
      a = a + p
      continue
    n = 0
    while dh < 0 and n < 60:
      lo, hi = hi, 2 * hi
      dh = dphi(hi)
      n += 1
    if dh < 0:
      a = a + hi * p
      continue
    for _ in range(100):
      mid = 0.5 * (lo + hi)
      dm = dphi(mid)
      if dm < 0:
        lo = mid
      else:
        hi = mid
      if hi - lo <= 1e-15 * hi:
        break
    a_new = a + 0.5 * (lo + hi) * p
    if np.array_equal(a_new, a):
      break
    a = a_new
  g, f = P.grad(a, with_force=True)
  gn = np.linalg.norm(g)
  scale = np.linalg.norm(P.noise(a, f)) + 1e-300
  if best is not None and best[0] < gn:
    gn, a, scale = best
    g, f = P.grad(a, with_force=True)
  info = dict(iters=it + 1, gnorm=float(gn), scale=float(scale), delta=P.delta(g), rel=float(gn / scale))
  return a, info


# ---------------------------------------------------------------- helpers shared by C09/C10/C11

def pyramid_decode(p, mu, dim):
  """Contact-frame force from pyramid edge forces, from the documented basis (doc "Friction cones"): edge 2k-1 / 2k
  (k = 1..dim-1) is normal + / - mu_k times friction axis k, so  f_normal = sum of all edges and
  f_k = mu_k (p_{2k-1} - p_{2k})."""
  out = np.zeros(6)
  if dim == 1:
    out[0] = p[0]
    return out
  out[0] = np.sum(p[:2 * (dim - 1)])
  for k in range(dim - 1):
    out[1 + k] = mu[k] * (p[2 * k] - p[2 * k + 1])
  return out
