"""Reference for the constraint penalty s(jar) and the constraint force, derived from the documented optimisation
problems (doc/computation/index.rst, "Primal problem", "Reduced primal problem", "Dual problem"), NOT from the
zone formulas of engine_core_constraint.c.

Documentation used:
  * the force is f = -grad s(J x - aref) ("Reduced primal problem");
  * given the constraint-space acceleration, the force solves the *diagonal* inverse problem
        f = argmin_{lambda in Omega}  1/2 lambda' R lambda + lambda' jar                      ("Dual problem")
    where Omega is: unconstrained for equalities, |lambda| <= eta (frictionloss) for friction loss, lambda >= 0 for
    limits / frictionless / pyramidal rows, and the elliptic cone K = {f: f_1 >= 0, f_1^2 >= sum_i f_i^2 / mu_{i-1}^2};
  * by convex duality the penalty is  s(jar) = - min_{lambda in Omega} (1/2 lambda' R lambda + lambda' jar);
  * the regulariser of an elliptic contact is coupled: R_1 = R_0 / impratio, R_j mu_j^2 = R_1 mu_1^2, and the engine is
    handed the "regularised" friction coefficient mu = mu_1 sqrt(R_1 / R_0)   (XMLreference option/impratio, modeling.rst).

Every row kind reduces to a 1-D or 2-D quadratic programme that is solved by enumerating the KKT candidates and taking
the feasible minimiser - no zones are hard-coded.
"""
import numpy as np

EQUALITY, FRICTION, NONNEG, ELLIPTIC = 'equality', 'friction', 'nonneg', 'elliptic'


def _qp1(R, z, lo, hi):
  """argmin_{lo <= x <= hi} 1/2 R x^2 + z x  (R > 0)."""
  x = -z / R
  return min(max(x, lo), hi)


def solve_elliptic(R, z, mu):
  """Force and penalty of one elliptic contact.  R, z: arrays of length dim; mu: friction coefficients (dim-1).
  Requires the documented coupling R_j mu_j^2 == c for all j >= 1 (checked by the caller).
  Returns (force, cost, zone) with zone in {'top', 'bottom', 'middle'} (+ '?' appended when the minimiser is
  within rounding of two candidates, i.e. on a zone boundary)."""
  R = np.asarray(R, dtype=np.float64)
  z = np.asarray(z, dtype=np.float64)
  mu = np.asarray(mu, dtype=np.float64)
  dim = len(z)
  if dim == 1:
    x = _qp1(R[0], z[0], 0.0, np.inf)
    return np.array([x]), -(0.5 * R[0] * x * x + z[0] * x), ('top' if x == 0 else 'bottom')
  c = R[1] * mu[0] ** 2                      # = R_j mu_j^2 for every friction dimension
  w = z[1:] * mu                             # linear term after the substitution lambda_j = mu_j nu_j
  wn = float(np.sqrt(np.sum(w * w)))
  # reduced problem in (l0, t), nu = -t w/|w|:  min 1/2 R0 l0^2 + 1/2 c t^2 + z0 l0 - |w| t   s.t.  l0 >= t >= 0
  R0, z0 = R[0], z[0]
  val = lambda l0, t: 0.5 * R0 * l0 * l0 + 0.5 * c * t * t + z0 * l0 - wn * t
  # The objective is strictly convex, so the KKT point is unique:
  #  (i)  if the unconstrained minimiser (-z0/R0, |w|/c) is feasible it is the solution (interior of the cone);
  #  (ii) otherwise a constraint is active.  The face t = 0 cannot hold the solution unless l0 = 0 or |w| = 0, because the
  #       objective decreases in t at t = 0 when |w| > 0 and t can grow while l0 > 0.  So the solution is on the cone
  #       surface l0 = t, where the 1-D minimiser is t = (|w| - z0)/(R0 + c), clipped at the apex t = 0.
  # (Choosing among candidates by comparing objective values is numerically unsound next to a zone boundary: the values
  #  differ by O(d^2) while the minimisers differ by O(d).)
  l0u, tu = -z0 / R0, (wn / c if wn > 0 else 0.0)
  if wn == 0:
    l0, t = max(0.0, l0u), 0.0
    zone = 'bottom' if l0 > 0 else 'top'
  elif l0u >= tu:
    l0, t, zone = l0u, tu, 'bottom'
  else:
    t = max(0.0, (wn - z0) / (R0 + c))
    l0 = t
    zone = 'middle' if t > 0 else 'top'
  v = val(l0, t)
  f = np.empty(dim)
  f[0] = l0
  f[1:] = (-t * mu * w / wn) if wn > 0 else 0.0
  return f, -v, zone


def boundary_distance(R, z, mu):
  """Relative distance of an elliptic contact's jar to the nearest zone boundary (0 on a boundary)."""
  R = np.asarray(R, dtype=np.float64)
  z = np.asarray(z, dtype=np.float64)
  mu = np.asarray(mu, dtype=np.float64)
  if len(z) == 1:
    return 1.0
  c = R[1] * mu[0] ** 2
  wn = float(np.linalg.norm(z[1:] * mu))
  top = z[0] - wn                     # >= 0: top zone
  bot = -z[0] / R[0] - wn / c         # >= 0: bottom zone
  s1 = abs(z[0]) + wn
  s2 = abs(z[0]) / R[0] + wn / c
  return min(abs(top) / s1 if s1 > 0 else 0.0, abs(bot) / s2 if s2 > 0 else 0.0, (wn / s1 if s1 > 0 else 0.0))


def solve(rows, R, jar, floss):
  """rows: list of (kind, start, dim, mu-or-None). Returns (force, cost, per-row zone list, per-constraint |cost| sum)."""
  f = np.zeros(len(jar))
  cost = 0.0
  abscost = 0.0
  zones = []
  for kind, i, dim, mu in rows:
    if kind == EQUALITY:
      x = -jar[i] / R[i]
      c = 0.5 * jar[i] * jar[i] / R[i]
      f[i] = x
      zones.append('quadratic')
    elif kind == FRICTION:
      x = _qp1(R[i], jar[i], -floss[i], floss[i])
      c = -(0.5 * R[i] * x * x + jar[i] * x)
      f[i] = x
      # zone from the exact condition |-z/R| < eta (not from the rounded minimiser)
      zones.append('quadratic' if abs(jar[i]) < R[i] * floss[i] else ('linearneg' if jar[i] < 0 else 'linearpos'))
    elif kind == NONNEG:
      x = _qp1(R[i], jar[i], 0.0, np.inf)
      c = -(0.5 * R[i] * x * x + jar[i] * x)
      f[i] = x
      zones.append('satisfied' if jar[i] >= 0 else 'quadratic')     # exact condition (x may underflow to 0)
    else:
      x, c, zone = solve_elliptic(R[i:i + dim], jar[i:i + dim], mu)
      f[i:i + dim] = x
      zones.append({'top': 'satisfied', 'bottom': 'quadratic', 'middle': 'cone'}[zone])
    cost += c
    abscost += abs(c) + float(np.sum(np.abs(jar[i:i + dim] * f[i:i + dim])))
  return f, cost, zones, abscost
