"""Reference rigid-body dynamics in numpy, world frame, textbook formulation (not the engine's subtree-COM spatial algebra).

  k = kin.fk(m, qpos)
  body_inertia_world(k)                     -> (nbody,3,3) rotational inertia about each body's COM, world axes
  armature_terms(m, k)                      -> (diag (nv,), tendon_arm (ntendon,)) joint/tendon armature incl. the
                                               documented actuator contribution armature*gear^2
  mass_matrix(m, k, parts=False)            -> dense M = sum_b [m_b Jp'Jp + Jr' I_b Jr] + diag(armature) + sum_t a_t J_t'J_t
  body_kinematics(m, k, qvel, qacc)         -> per body: omega, alpha, v_com, a_com (no gravity), by joint-by-joint
                                               propagation of velocities/accelerations of rigid frames
  rne(m, k, qvel, qacc, gravity=None)       -> generalized force of the rigid bodies:  sum_b Jp'(m_b (a_com - g)) +
                                               Jr'(I alpha + omega x I omega)   (armature NOT included)
  tendon_armature_bias(m, k, qvel, eps)     -> sum_t a_t J_t' (dJ_t/dt qvel), by central differences of the oracle J_t
  kinetic_energy(m, k, qvel), potential_energy(m, k, gravity) (gravity + joint/tendon polynomial springs)
  spring_force(m, k) / damper_force(m, k, qvel) / gravcomp_force(m, k, gravity)   documented passive laws
  momentum(m, k, qvel, body)                -> (mass, com, linear momentum, angular momentum about subtree COM)
"""
import numpy as np

from . import kin


def body_inertia_world(k):
  S = k.S
  out = np.zeros((S.nbody, 3, 3))
  for b in range(1, S.nbody):
    R = k.ximat[b]
    out[b] = R @ np.diag(S.body_inertia[b]) @ R.T
  return out


def _actuator_sum(S, field, objtype, objid):
  """Sum over actuators whose transmission targets the joint/tendon of field*gear[0]^2 (XMLreference
  actuator/general/armature and damping: 'scaled by gear squared', 'values are summed')."""
  arr = getattr(S, field)
  if arr is None or S.nactuator == 0:
    return 0.0
  tot = 0.0
  for a in range(S.nactuator):
    tt = int(S.actuator_trntype[a])
    if objtype == 'joint' and tt not in (S.TRN_JOINT, S.TRN_JOINTINPARENT):
      continue
    if objtype == 'tendon' and tt != S.TRN_TENDON:
      continue
    if int(S.actuator_trnid[a][0]) != objid:
      continue
    oa = int(S.actuator_outadr[a]) if S.actuator_outadr is not None else a
    g = float(S.actuator_gear[oa][0])
    tot = tot + np.asarray(arr[a], dtype=np.float64) * g * g
  return tot


def armature_terms(m, k):
  S = k.S
  diag = np.array(S.dof_armature, dtype=np.float64).copy()
  for i in range(S.nv):
    diag[i] += _actuator_sum(S, 'actuator_armature', 'joint', int(S.dof_jntid[i]))
  ta = np.zeros(S.ntendon)
  for t in range(S.ntendon):
    ta[t] = S.tendon_armature[t] + _actuator_sum(S, 'actuator_armature', 'tendon', t)
  return diag, ta


def mass_matrix(m, k, parts=False):
  S = k.S
  nv = S.nv
  I = body_inertia_world(k)
  Mr = np.zeros((nv, nv))
  for b in range(1, S.nbody):
    jp, jr = kin.jac(m, k, k.xipos[b], b)
    Mr += S.body_mass[b] * jp.T @ jp + jr.T @ I[b] @ jr
  diag, ta = armature_terms(m, k)
  Ma = np.diag(diag)
  if S.ntendon and np.any(ta != 0):
    _, J = kin.tendon(m, k)
    for t in range(S.ntendon):
      if ta[t]:
        Ma = Ma + ta[t] * np.outer(J[t], J[t])
  if parts:
    return Mr, Ma
  return Mr + Ma


def body_kinematics(m, k, qvel, qacc=None):
  """Angular velocity/acceleration of each body frame and linear velocity/acceleration of each body COM."""
  S = k.S
  v = np.asarray(qvel, dtype=np.float64)
  a = np.zeros(S.nv) if qacc is None else np.asarray(qacc, dtype=np.float64)
  nb = S.nbody
  om = np.zeros((nb, 3))
  al = np.zeros((nb, 3))
  vo = np.zeros((nb, 3))     # velocity / acceleration of the body frame origin xpos
  ao = np.zeros((nb, 3))
  vc = np.zeros((nb, 3))
  ac = np.zeros((nb, 3))
  for b in range(1, nb):
    par = int(S.body_parentid[b])
    ja, jn = int(S.body_jntadr[b]), int(S.body_jntnum[b])
    if jn == 1 and S.jnt_type[ja] == S.FREE:
      va = int(S.jnt_dofadr[ja])
      R = k.jnt_Rafter[ja]
      w = R @ v[va + 3:va + 6]
      om[b] = w
      al[b] = R @ a[va + 3:va + 6]            # d/dt (R w_loc) = R w_loc' + w x (R w_loc) = R w_loc'
      vo[b] = v[va:va + 3]
      ao[b] = a[va:va + 3]
    else:
      # moving frame F starts as the parent's frame; reference point r = origin of b's pre-joint frame, treated as a
      # point fixed in F
      w, dw = om[par].copy(), al[par].copy()
      r = k.xpos[par] + k.xmat[par] @ S.body_pos[b] if int(S.body_mocapid[b]) < 0 else None

      def point(x, ref, vref, aref, w, dw):
        d = x - ref
        return vref + np.cross(w, d), aref + np.cross(dw, d) + np.cross(w, np.cross(w, d))
      if r is None:            # mocap body: static
        ref, vref, aref = k.xpos[b], np.zeros(3), np.zeros(3)
        w, dw = np.zeros(3), np.zeros(3)
      else:
        ref = r
        vref, aref = point(r, k.xpos[par], vo[par], ao[par], w, dw)
      for j in range(ja, ja + jn):
        t, va = S.jnt_type[j], int(S.jnt_dofadr[j])
        if t == S.SLIDE:
          ax = k.xaxis[j]
          # new frame translates along ax (fixed in F): the point of the new frame coincident with `ref` has the
          # velocity of F's point plus ax*qd, and acceleration plus ax*qdd plus the Coriolis term 2 w x ax qd
          aref = aref + ax * a[va] + 2 * np.cross(w, ax) * v[va]
          vref = vref + ax * v[va]
        else:
          # move the reference to the anchor (a point of F), which is also a point of the new frame
          anchor = k.xanchor[j]
          vref, aref = point(anchor, ref, vref, aref, w, dw)
          ref = anchor
          if t == S.HINGE:
            ax = k.xaxis[j]
            dw = dw + ax * a[va] + np.cross(w, ax) * v[va]
            w = w + ax * v[va]
          else:   # ball: local angular velocity in the frame after the joint
            R = k.jnt_Rafter[j]
            wr = R @ v[va:va + 3]
            dw = dw + R @ a[va:va + 3] + np.cross(w, wr)
            w = w + wr
      om[b], al[b] = w, dw
      vo[b], ao[b] = point(k.xpos[b], ref, vref, aref, w, dw)
    d = k.xipos[b] - k.xpos[b]
    vc[b] = vo[b] + np.cross(om[b], d)
    ac[b] = ao[b] + np.cross(al[b], d) + np.cross(om[b], np.cross(om[b], d))
  return om, al, vc, ac


def _lever_bounds(k, b):
  """For body b: dict dof -> (lever, coord) where lever = |com_b - anchor| (1 for translational dofs) and coord bounds
  the magnitude of the world coordinates entering the lever (their rounding error is eps*coord)."""
  out = {}
  x = k.xipos[b]
  for (i, kind, axis, anchor) in kin.dof_columns(k, b):
    if kind == 'lin':
      out[i] = (1.0, 0.0)
    else:
      out[i] = (float(np.linalg.norm(x - anchor)), float(np.linalg.norm(x) + np.linalg.norm(anchor)))
  return out


def mass_matrix_scale(m, k):
  """Entry-wise magnitude bound of the terms summed into M plus the effect of eps-rounding of world coordinates:
  sqrt(Mii Mjj) + sum_b m_b (lever_bi*coord_bj + lever_bj*coord_bi) + sum_b m_b D_b^2 (rot-rot) / m_b D_b (rot-lin),
  D_b = distance of the body COM from the COM of its kinematic tree (the documented reference point of the engine's
  spatial quantities; parallel-axis terms of that size are added and removed again)."""
  S = k.S
  M = mass_matrix(m, k)
  dg = np.sqrt(np.abs(np.diag(M)))
  sc = np.outer(dg, dg)
  for b in range(1, S.nbody):
    lb = _lever_bounds(k, b)
    idx = list(lb)
    lev = np.array([lb[i][0] for i in idx])
    crd = np.array([lb[i][1] for i in idx])
    sc[np.ix_(idx, idx)] += S.body_mass[b] * (np.outer(lev, crd) + np.outer(crd, lev))
    Db = float(np.linalg.norm(k.xipos[b] - k.subtree_com[int(S.body_rootid[b])]))
    rot = np.array([0.0 if lb[i][1] == 0.0 and lb[i][0] == 1.0 else 1.0 for i in idx])
    sc[np.ix_(idx, idx)] += S.body_mass[b] * (np.outer(rot, rot) * Db * Db + (np.outer(rot, 1 - rot) + np.outer(1 - rot, rot)) * Db)
  return sc


def rne(m, k, qvel, qacc=None, gravity=None, return_scale=False):
  """Generalized rigid-body force. With return_scale also a per-dof magnitude bound of the terms that are added
  (|J|'|f| + |Jr|'|n|) plus the effect of eps-rounding of world coordinates on the levers (coord*|f|)."""
  S = k.S
  g = S.gravity if gravity is None else np.asarray(gravity, dtype=np.float64)
  om, al, vc, ac = body_kinematics(m, k, qvel, qacc)
  I = body_inertia_world(k)
  tau = np.zeros(S.nv)
  scale = np.zeros(S.nv)
  for b in range(1, S.nbody):
    jp, jr = kin.jac(m, k, k.xipos[b], b)
    f = S.body_mass[b] * (ac[b] - g)
    n = I[b] @ al[b] + np.cross(om[b], I[b] @ om[b])
    tau += jp.T @ f + jr.T @ n
    if return_scale:
      fa = S.body_mass[b] * (np.abs(ac[b]) + np.abs(g) + np.linalg.norm(vc[b]) * np.linalg.norm(om[b]))
      na = np.abs(I[b]) @ np.abs(al[b]) + np.linalg.norm(om[b]) * (np.abs(I[b]) @ np.abs(om[b]))
      # norm-based (not element-wise): axis components carry an absolute rounding error of eps
      scale += np.linalg.norm(jp, axis=0) * np.linalg.norm(fa) + np.linalg.norm(jr, axis=0) * np.linalg.norm(na)
      for i, (lev, crd) in _lever_bounds(k, b).items():
        scale[i] += crd * np.linalg.norm(fa)
  if return_scale:
    return tau, scale
  return tau


def tendon_armature_bias(m, k, qvel, eps=1e-6):
  S = k.S
  _, ta = armature_terms(m, k)
  out = np.zeros(S.nv)
  if not S.ntendon or not np.any(ta != 0):
    return out
  v = np.asarray(qvel, dtype=np.float64)
  _, J = kin.tendon(m, k)
  kp = kin.fk(m, kin.integrate_pos(m, k.qpos, v, eps))
  km = kin.fk(m, kin.integrate_pos(m, k.qpos, v, -eps))
  _, Jp = kin.tendon(m, kp)
  _, Jm = kin.tendon(m, km)
  # velocity coordinates of ball/free joints are body-fixed: J(q) columns are expressed in the moving frame, and
  # d/dt (J qvel) with constant qvel is what the bias needs:  Ldd = J qacc + (dJ/dt) qvel
  Jd = (Jp - Jm) / (2 * eps)
  for t in range(S.ntendon):
    if ta[t]:
      out += ta[t] * J[t] * float(Jd[t] @ v)
  return out


# ------------------------------------------------------------------ energies, passive laws

def poly_force(lin, poly, x, odd):
  """Documented polynomial force f(x) (computation/index.rst 'Polynomial forces'):
  standard  f = a x + b x^2 + c x^3 ...;  anti-symmetrised (damping)  f = a v + b v|v| + c v^3 ..."""
  f = lin * x
  for i, c in enumerate(np.atleast_1d(poly)):
    p = i + 2
    if odd and p % 2 == 0:
      f += c * x * abs(x) ** (p - 1)
    else:
      f += c * x ** p
  return f


def poly_force_deriv(lin, poly, x, odd):
  f = lin
  for i, c in enumerate(np.atleast_1d(poly)):
    p = i + 2
    if odd and p % 2 == 0:
      f += c * p * abs(x) ** (p - 1)
    else:
      f += c * p * x ** (p - 1)
  return f


def poly_potential(lin, poly, x):
  """Integral of the standard polynomial force from 0 to x."""
  e = 0.5 * lin * x * x
  for i, c in enumerate(np.atleast_1d(poly)):
    p = i + 2
    e += c * x ** (p + 1) / (p + 1)
  return e


def _jnt_poly(S, j):
  if S.jnt_stiffnesspoly is None or S.jnt_stiffnesspoly.size == 0:
    return np.zeros(0)
  return np.atleast_1d(S.jnt_stiffnesspoly[j])


def _tendon_x(S, L, t):
  lo, hi = S.tendon_lengthspring[t]
  return L[t] - hi if L[t] > hi else L[t] - lo if L[t] < lo else 0.0


def kinetic_energy(m, k, qvel):
  v = np.asarray(qvel, dtype=np.float64)
  return 0.5 * float(v @ mass_matrix(m, k) @ v)


def spring_energy(m, k):
  S = k.S
  q = k.qpos
  e = 0.0
  for j in range(S.njnt):
    kk, poly = float(S.jnt_stiffness[j]), _jnt_poly(S, j)
    if kk == 0 and not np.any(poly):
      continue
    t, pa = S.jnt_type[j], int(S.jnt_qposadr[j])
    if t == S.FREE:
      e += poly_potential(kk, poly, np.linalg.norm(q[pa:pa + 3] - S.qpos_spring[pa:pa + 3]))
      pa += 3
    if t in (S.FREE, S.BALL):
      ang = kin.qlog(kin.qmul(kin.qconj(kin.qnormalize(S.qpos_spring[pa:pa + 4])), kin.qnormalize(q[pa:pa + 4])))
      e += poly_potential(kk, poly, np.linalg.norm(ang))
    else:
      e += poly_potential(kk, poly, q[pa] - S.qpos_spring[pa])
  if S.ntendon:
    L, _ = kin.tendon(m, k)
    for t in range(S.ntendon):
      poly = np.atleast_1d(S.tendon_stiffnesspoly[t]) if S.tendon_stiffnesspoly is not None and S.tendon_stiffnesspoly.size else np.zeros(0)
      e += poly_potential(float(S.tendon_stiffness[t]), poly, _tendon_x(S, L, t))
  return e


def gravity_energy(m, k, gravity=None):
  S = k.S
  g = S.gravity if gravity is None else np.asarray(gravity, dtype=np.float64)
  return -float(sum(S.body_mass[b] * (g @ k.xipos[b]) for b in range(1, S.nbody)))


def potential_energy(m, k, gravity=None):
  return gravity_energy(m, k, gravity) + spring_energy(m, k)


def spring_force(m, k):
  """Joint + tendon spring force in joint space: -f(x) along the deflection from the spring reference."""
  S = k.S
  q = k.qpos
  out = np.zeros(S.nv)
  for j in range(S.njnt):
    kk, poly = float(S.jnt_stiffness[j]), _jnt_poly(S, j)
    if kk == 0 and not np.any(poly):
      continue
    t, pa, va = S.jnt_type[j], int(S.jnt_qposadr[j]), int(S.jnt_dofadr[j])
    if t == S.FREE:
      dif = q[pa:pa + 3] - S.qpos_spring[pa:pa + 3]
      r = np.linalg.norm(dif)
      if r > 0:
        out[va:va + 3] += -poly_force(kk, poly, r, False) * dif / r
      pa += 3
      va += 3
    if t in (S.FREE, S.BALL):
      dif = kin.qlog(kin.qmul(kin.qconj(kin.qnormalize(S.qpos_spring[pa:pa + 4])), kin.qnormalize(q[pa:pa + 4])))
      r = np.linalg.norm(dif)
      if r > 0:
        out[va:va + 3] += -poly_force(kk, poly, r, False) * dif / r
    else:
      out[va] += -poly_force(kk, poly, q[pa] - S.qpos_spring[pa], False)
  if S.ntendon:
    L, J = kin.tendon(m, k)
    for t in range(S.ntendon):
      poly = np.atleast_1d(S.tendon_stiffnesspoly[t]) if S.tendon_stiffnesspoly is not None and S.tendon_stiffnesspoly.size else np.zeros(0)
      x = _tendon_x(S, L, t)
      out += -poly_force(float(S.tendon_stiffness[t]), poly, x, False) * J[t]
  return out


def damping_coefs(m, k):
  """(dof_lin (nv,), dof_poly (nv,NPOLY), tendon_lin (nt,), tendon_poly (nt,NPOLY)) including actuator damping*gear^2."""
  S = k.S
  npoly = S.dof_dampingpoly.shape[1] if S.dof_dampingpoly is not None and S.dof_dampingpoly.ndim == 2 else 0
  dl = np.array(S.dof_damping, dtype=np.float64).copy()
  dp = np.array(S.dof_dampingpoly, dtype=np.float64).reshape(S.nv, npoly).copy() if npoly else np.zeros((S.nv, 0))
  for i in range(S.nv):
    j = int(S.dof_jntid[i])
    dl[i] += _actuator_sum(S, 'actuator_damping', 'joint', j)
    if npoly:
      dp[i] = dp[i] + _actuator_sum(S, 'actuator_dampingpoly', 'joint', j)
  tl = np.array(S.tendon_damping, dtype=np.float64).copy() if S.ntendon else np.zeros(0)
  tp = np.array(S.tendon_dampingpoly, dtype=np.float64).reshape(S.ntendon, npoly).copy() if (S.ntendon and npoly) else np.zeros((S.ntendon, 0))
  for t in range(S.ntendon):
    tl[t] += _actuator_sum(S, 'actuator_damping', 'tendon', t)
    if npoly:
      tp[t] = tp[t] + _actuator_sum(S, 'actuator_dampingpoly', 'tendon', t)
  return dl, dp, tl, tp


def damper_force(m, k, qvel):
  S = k.S
  v = np.asarray(qvel, dtype=np.float64)
  dl, dp, tl, tp = damping_coefs(m, k)
  out = np.zeros(S.nv)
  for i in range(S.nv):
    out[i] = -poly_force(dl[i], dp[i], v[i], True)
  if S.ntendon:
    _, J = kin.tendon(m, k)
    for t in range(S.ntendon):
      out += -poly_force(tl[t], tp[t], float(J[t] @ v), True) * J[t]
  return out


def gravcomp_force(m, k, gravity=None):
  """XMLreference body/gravcomp: upward force gravcomp*weight applied at the body's centre of mass."""
  S = k.S
  g = S.gravity if gravity is None else np.asarray(gravity, dtype=np.float64)
  out = np.zeros(S.nv)
  for b in range(1, S.nbody):
    c = float(S.body_gravcomp[b])
    if c:
      jp, _ = kin.jac(m, k, k.xipos[b], b)
      out += jp.T @ (-c * S.body_mass[b] * g)
  return out


def momentum(m, k, qvel, body):
  """(mass, com, linear momentum, angular momentum about the subtree COM) of the subtree rooted at body."""
  S = k.S
  om, _, vc, _ = body_kinematics(m, k, qvel)
  I = body_inertia_world(k)
  bodies = S.subtree(body)
  mass = sum(S.body_mass[b] for b in bodies)
  com = sum(S.body_mass[b] * k.xipos[b] for b in bodies) / mass
  P = sum(S.body_mass[b] * vc[b] for b in bodies)
  V = P / mass
  Lm = np.zeros(3)
  for b in bodies:
    Lm += I[b] @ om[b] + S.body_mass[b] * np.cross(k.xipos[b] - com, vc[b] - V)
  return mass, com, P, Lm
