"""Independent geometric reference for MuJoCo geoms (numpy/scipy only).

Written from the documented geometry of the geom types (XMLreference "geom/type", "geom/size"):
  plane     : z = 0 of the geom frame, +z is the free side, infinite for collisions
  sphere    : radius size[0]
  capsule   : segment of half-length size[1] along local z, radius size[0]
  ellipsoid : semi-axes size[0..2]
  cylinder  : radius size[0], half-height size[1] along local z
  box       : half-sizes size[0..2]
  mesh      : convex hull of the vertices (collisions), triangle soup (rays)

Nothing here is transcribed from the engine: distances are closed-form / certified by support functions,
rays are solved as quadratics / slabs, meshes with Moller-Trumbore.
"""
import math

import numpy as np

TYPES = ('plane', 'hfield', 'sphere', 'capsule', 'ellipsoid', 'cylinder', 'box', 'mesh')


class Shape:
  """A geom in world coordinates. mat columns are the local axes in world coordinates."""

  def __init__(self, typ, size, pos, mat, verts=None, faces=None):
    self.typ = typ
    self.size = np.asarray(size, dtype=float).copy()
    self.pos = np.asarray(pos, dtype=float).copy()
    self.mat = np.asarray(mat, dtype=float).reshape(3, 3).copy()
    self.verts = None if verts is None else np.asarray(verts, dtype=float).reshape(-1, 3)
    self.faces = None if faces is None else np.asarray(faces, dtype=int).reshape(-1, 3)
    self._planes = None

  def to_local(self, p):
    return self.mat.T @ (np.asarray(p, dtype=float) - self.pos)

  def dir_local(self, d):
    return self.mat.T @ np.asarray(d, dtype=float)

  def to_world(self, q):
    return self.mat @ q + self.pos

  def scale(self):
    if self.typ == 'plane':
      return 1.0
    if self.typ == 'mesh':
      return float(np.max(np.linalg.norm(self.verts, axis=1)))
    if self.typ == 'sphere':
      return float(self.size[0])
    if self.typ in ('capsule',):
      return float(self.size[0] + self.size[1])
    if self.typ == 'cylinder':
      return float(math.hypot(self.size[0], self.size[1]))
    return float(np.linalg.norm(self.size[:3]))

  def minsize(self):
    if self.typ == 'plane':
      return 1.0
    if self.typ == 'sphere':
      return float(self.size[0])
    if self.typ == 'capsule':
      return float(self.size[0])
    if self.typ == 'cylinder':
      return float(min(self.size[0], self.size[1]))
    if self.typ == 'mesh':
      pl = self.planes()
      # inradius-like: distance from centroid to nearest hull plane
      c = self.verts.mean(axis=0)
      return float(np.min(pl[:, 3] - pl[:, :3] @ c))
    return float(np.min(self.size[:3]))

  def planes(self):
    """Outward face planes (n, c) with n.x <= c inside, for a mesh given by hull faces."""
    if self._planes is None:
      v, f = self.verts, self.faces
      c = v.mean(axis=0)
      out = []
      for a, b, cc in f:
        n = np.cross(v[b] - v[a], v[cc] - v[a])
        ln = np.linalg.norm(n)
        if ln < 1e-300:
          continue
        n = n / ln
        off = n @ v[a]
        if n @ c > off:
          n, off = -n, -off
        out.append([n[0], n[1], n[2], off])
      self._planes = np.array(out)
    return self._planes


def shape_from_model(m, d, g, lib=None, hull=True):
  """Build a Shape for geom g of a compiled model (positions from mjData)."""
  t = TYPES[int(m.geom_type[g])]
  verts = faces = None
  if t == 'mesh':
    mid = int(m.geom_dataid[g])
    va, vn = int(m.mesh_vertadr[mid]), int(m.mesh_vertnum[mid])
    fa, fn = int(m.mesh_faceadr[mid]), int(m.mesh_facenum[mid])
    verts = np.array(m.mesh_vert[va:va + vn], dtype=float)
    faces = np.array(m.mesh_face[fa:fa + fn], dtype=int)
  return Shape(t, np.array(m.geom_size[g]), np.array(d.geom_xpos[g]), np.array(d.geom_xmat[g]).reshape(3, 3),
               verts, faces)


# ----------------------------------------------------------------------------- support functions

def support_local(typ, size, dl, verts=None):
  """A point of the shape (local frame) maximising dl . x."""
  dl = np.asarray(dl, dtype=float)
  n = np.linalg.norm(dl)
  if typ == 'sphere':
    return size[0] * dl / n if n > 0 else np.zeros(3)
  if typ == 'capsule':
    p = size[0] * dl / n if n > 0 else np.zeros(3)
    p = p.copy()
    p[2] += size[1] if dl[2] >= 0 else -size[1]
    return p
  if typ == 'ellipsoid':
    s = size[:3]
    w = s * dl
    nw = np.linalg.norm(w)
    return s * w / nw if nw > 0 else np.array([s[0], 0, 0])
  if typ == 'cylinder':
    r = math.hypot(dl[0], dl[1])
    p = np.zeros(3)
    if r > 0:
      p[:2] = size[0] * dl[:2] / r
    p[2] = size[1] if dl[2] >= 0 else -size[1]
    return p
  if typ == 'box':
    return np.where(dl >= 0, size[:3], -size[:3])
  if typ == 'mesh':
    return verts[int(np.argmax(verts @ dl))]
  raise ValueError('no support function for ' + typ)


def support(shape, d):
  return shape.to_world(support_local(shape.typ, shape.size, shape.dir_local(d), shape.verts))


def hsup(shape, d):
  """Support value h(d) = max_{x in shape} d.x (d need not be unit)."""
  d = np.asarray(d, dtype=float)
  dl = shape.dir_local(d)
  t, s = shape.typ, shape.size
  base = float(d @ shape.pos)
  if t == 'sphere':
    return base + s[0] * np.linalg.norm(dl)
  if t == 'capsule':
    return base + s[0] * np.linalg.norm(dl) + s[1] * abs(dl[2])
  if t == 'ellipsoid':
    return base + float(np.linalg.norm(s[:3] * dl))
  if t == 'cylinder':
    return base + s[0] * math.hypot(dl[0], dl[1]) + s[1] * abs(dl[2])
  if t == 'box':
    return base + float(np.abs(dl) @ s[:3])
  if t == 'mesh':
    return base + float(np.max(shape.verts @ dl))
  raise ValueError('no support function for ' + t)


def hsup_many(shape, D):
  """Vectorised support values for rows of D (world directions)."""
  DL = D @ shape.mat            # rows: mat.T @ d
  t, s = shape.typ, shape.size
  base = D @ shape.pos
  if t == 'sphere':
    return base + s[0] * np.linalg.norm(DL, axis=1)
  if t == 'capsule':
    return base + s[0] * np.linalg.norm(DL, axis=1) + s[1] * np.abs(DL[:, 2])
  if t == 'ellipsoid':
    return base + np.linalg.norm(DL * s[:3], axis=1)
  if t == 'cylinder':
    return base + s[0] * np.hypot(DL[:, 0], DL[:, 1]) + s[1] * np.abs(DL[:, 2])
  if t == 'box':
    return base + np.abs(DL) @ s[:3]
  if t == 'mesh':
    return base + np.max(DL @ shape.verts.T, axis=1)
  raise ValueError(t)


# ----------------------------------------------------------------------------- point distance

def _ellipsoid_closest(e, y):
  """Closest point on the ellipsoid with semi-axes e to the point y (first-octant handled by symmetry).
  Root of g(t) = sum (e_i y_i / (t + e_i^2))^2 - 1 on t > -min(e)^2 (Eberly's formulation), by bisection."""
  sgn = np.where(y < 0, -1.0, 1.0)
  ya = np.abs(y).astype(float)
  emin2 = float(np.min(e)) ** 2
  tiny = 1e-14 * float(np.max(e))
  ya = np.maximum(ya, tiny)      # continuity: moves the query by <= 1e-14*scale
  ey = e * ya

  def g(u):       # u = t + emin2 > 0
    t = u - emin2
    return float(np.sum((ey / (t + e * e)) ** 2) - 1.0)
  k = int(np.argmin(e))
  lo = float(e[k] * ya[k])                 # g(lo) >= 0
  hi = emin2 + float(np.linalg.norm(ey))   # g(hi) < 0
  if g(lo) <= 0:
    u = lo
  else:
    for _ in range(200):
      mid = 0.5 * (lo + hi)
      if mid == lo or mid == hi:
        break
      if g(mid) > 0:
        lo = mid
      else:
        hi = mid
    u = 0.5 * (lo + hi)
  t = u - emin2
  x = e * e * ya / (t + e * e)
  return sgn * x


def sdf_local(typ, size, p, shape=None):
  """Signed Euclidean distance of a local point to the shape surface (negative inside)."""
  p = np.asarray(p, dtype=float)
  if typ == 'plane':
    return float(p[2])
  if typ == 'sphere':
    return float(np.linalg.norm(p) - size[0])
  if typ == 'capsule':
    q = p.copy()
    q[2] -= min(max(p[2], -size[1]), size[1])
    return float(np.linalg.norm(q) - size[0])
  if typ == 'cylinder':
    dr = math.hypot(p[0], p[1]) - size[0]
    dz = abs(p[2]) - size[1]
    if dr <= 0 and dz <= 0:
      return float(max(dr, dz))
    return float(math.hypot(max(dr, 0.0), max(dz, 0.0)))
  if typ == 'box':
    q = np.abs(p) - size[:3]
    if np.all(q <= 0):
      return float(np.max(q))
    return float(np.linalg.norm(np.maximum(q, 0.0)))
  if typ == 'ellipsoid':
    e = size[:3]
    x = _ellipsoid_closest(e, p)
    dist = float(np.linalg.norm(p - x))
    inside = float(np.sum((p / e) ** 2)) < 1.0
    return -dist if inside else dist
  if typ == 'mesh':
    pl = shape.planes()
    sd = pl[:, :3] @ p - pl[:, 3]
    mx = float(np.max(sd))
    if mx <= 0:
      return mx
    v, f = shape.verts, shape.faces
    best = math.inf
    for a, b, c in f:
      best = min(best, point_triangle_dist(p, v[a], v[b], v[c]))
    return best
  raise ValueError(typ)


def sdf(shape, p):
  return sdf_local(shape.typ, shape.size, shape.to_local(p), shape)


def point_triangle_dist(p, a, b, c):
  """Distance from point to triangle (Ericson 5.1.5 region walk written with barycentrics)."""
  ab, ac, ap = b - a, c - a, p - a
  d1, d2 = ab @ ap, ac @ ap
  if d1 <= 0 and d2 <= 0:
    return float(np.linalg.norm(ap))
  bp = p - b
  d3, d4 = ab @ bp, ac @ bp
  if d3 >= 0 and d4 <= d3:
    return float(np.linalg.norm(bp))
  vc = d1 * d4 - d3 * d2
  if vc <= 0 and d1 >= 0 and d3 <= 0:
    v = d1 / (d1 - d3)
    return float(np.linalg.norm(ap - v * ab))
  cp = p - c
  d5, d6 = ab @ cp, ac @ cp
  if d6 >= 0 and d5 <= d6:
    return float(np.linalg.norm(cp))
  vb = d5 * d2 - d1 * d6
  if vb <= 0 and d2 >= 0 and d6 <= 0:
    w = d2 / (d2 - d6)
    return float(np.linalg.norm(ap - w * ac))
  va = d3 * d6 - d5 * d4
  if va <= 0 and (d4 - d3) >= 0 and (d5 - d6) >= 0:
    w = (d4 - d3) / ((d4 - d3) + (d5 - d6))
    return float(np.linalg.norm(p - (b + w * (c - b))))
  n = np.cross(ab, ac)
  return float(abs(n @ ap) / np.linalg.norm(n))


# ----------------------------------------------------------------------------- segment utilities

def seg_seg_dist(p1, q1, p2, q2):
  """Minimum distance between segments [p1,q1] and [p2,q2]; returns (dist, c1, c2).
  Exact by enumeration of the KKT cases: interior-interior, endpoint-vs-segment (4x)."""
  d1, d2, r = q1 - p1, q2 - p2, p1 - p2
  a, e, f = d1 @ d1, d2 @ d2, d2 @ r
  cands = []
  b = d1 @ d2
  c = d1 @ r
  den = a * e - b * b
  if den > 1e-14 * max(a * e, 1e-300):
    s = (b * f - c * e) / den
    t = (a * f - b * c) / den
    if 0 <= s <= 1 and 0 <= t <= 1:
      cands.append((p1 + s * d1, p2 + t * d2))

  def pt_seg(p, a0, dv):
    dd = dv @ dv
    t = 0.0 if dd == 0 else min(max(((p - a0) @ dv) / dd, 0.0), 1.0)
    return a0 + t * dv
  for p in (p1, q1):
    cands.append((p, pt_seg(p, p2, d2)))
  for p in (p2, q2):
    cands.append((pt_seg(p, p1, d1), p))
  best = min(cands, key=lambda cc: np.linalg.norm(cc[0] - cc[1]))
  return float(np.linalg.norm(best[0] - best[1])), best[0], best[1]


def seg_box_dist(p, q, half):
  """Distance between segment [p,q] and the axis-aligned box |x_i|<=half_i (all in box frame).
  f(t) = dist(p + t(q-p), box) is convex in t: golden-section/ternary search to machine precision."""
  def f(t):
    x = p + t * (q - p)
    return float(np.linalg.norm(np.maximum(np.abs(x) - half, 0.0)))
  lo, hi = 0.0, 1.0
  for _ in range(200):
    m1 = lo + (hi - lo) / 3
    m2 = hi - (hi - lo) / 3
    if f(m1) <= f(m2):
      hi = m2
    else:
      lo = m1
    if hi - lo < 1e-15:
      break
  return min(f(0.0), f(1.0), f(0.5 * (lo + hi)))


def capsule_segment(shape):
  ax = shape.mat[:, 2] * shape.size[1]
  return shape.pos - ax, shape.pos + ax


# ----------------------------------------------------------------------------- closed-form pair distance

CLOSED_FORM = {('plane', 'sphere'), ('plane', 'capsule'), ('plane', 'box'), ('plane', 'cylinder'),
               ('plane', 'ellipsoid'), ('plane', 'mesh'), ('sphere', 'sphere'), ('sphere', 'capsule'),
               ('capsule', 'capsule'), ('sphere', 'box'), ('sphere', 'cylinder'), ('sphere', 'ellipsoid'),
               ('capsule', 'box')}


def pair_distance(a, b):
  """True signed distance between two shapes when a closed form exists, else None.
  Returns (dist, kind) where kind is 'exact' (valid for any depth) or 'separated' (valid only if dist > 0).
  a.typ <= b.typ in TYPES order is expected (plane first)."""
  ta, tb = a.typ, b.typ
  if ta == 'plane' and tb != 'plane':
    n = a.mat[:, 2]
    # lowest point of b along n
    return float(-hsup(b, -n) - n @ a.pos), 'exact'
  if ta == 'sphere':
    if tb in ('sphere', 'capsule', 'box', 'cylinder', 'ellipsoid'):
      return sdf(b, a.pos) - a.size[0], 'exact'
    return None
  if ta == 'capsule' and tb == 'capsule':
    p1, q1 = capsule_segment(a)
    p2, q2 = capsule_segment(b)
    dd, _, _ = seg_seg_dist(p1, q1, p2, q2)
    return dd - a.size[0] - b.size[0], 'exact'
  if ta == 'capsule' and tb == 'box':
    p1, q1 = capsule_segment(a)
    dd = seg_box_dist(b.to_local(p1), b.to_local(q1), b.size[:3])
    return dd - a.size[0], 'separated-core'   # valid when the capsule axis is outside the box (dd > 0)
  return None


# ----------------------------------------------------------------------------- convex certificates

def fibonacci_sphere(n):
  i = np.arange(n) + 0.5
  phi = np.arccos(1 - 2 * i / n)
  th = np.pi * (1 + 5 ** 0.5) * i
  return np.stack([np.cos(th) * np.sin(phi), np.sin(th) * np.sin(phi), np.cos(phi)], axis=1)


_DIRS = {}


def overlap_width(a, b, n):
  """Width of the overlap of a and b along unit n (from a to b): translation of b along +n that separates them.
  Positive = overlapping along n; negative = -(gap along n)."""
  return hsup(a, n) + hsup(b, -n)


def separation_lower_bound(a, b, n):
  """For unit n: every point pair satisfies |x_b - x_a| >= -overlap_width(a,b,n)."""
  return -overlap_width(a, b, n)


def _refine_width(a, b, n, best, step):
  """Pattern search on the unit sphere for a local minimum of w(n) = h_a(n) + h_b(-n)."""
  it = 0
  while step > 1e-10 and it < 400:
    it += 1
    t1 = np.cross(n, [1.0, 0, 0] if abs(n[0]) < 0.9 else [0, 1.0, 0])
    t1 /= np.linalg.norm(t1)
    t2 = np.cross(n, t1)
    C = np.array([n + step * (c * t1 + s * t2) for c, s in ((1, 0), (-1, 0), (0, 1), (0, -1), (.7, .7), (-.7, .7),
                                                             (.7, -.7), (-.7, -.7))])
    C /= np.linalg.norm(C, axis=1, keepdims=True)
    wc = hsup_many(a, C) + hsup_many(b, -C)
    j = int(np.argmin(wc))
    if wc[j] < best - 1e-13 * (abs(best) + a.scale() * 1e-3):
      best, n = float(wc[j]), C[j]
    else:
      step *= 0.5
  return best, n


def penetration_depth_sampled(a, b, ndir=2000, refine=True, extra=(), nstart=4):
  """min over unit n of w(n) = h_a(n) + h_b(-n), estimated by sampling + multi-start local refinement.
  The returned value is an UPPER bound of the true minimum (which is the penetration depth when positive and minus
  the separation distance when negative); with refinement it is the true minimum up to ~1e-9*size unless the global
  minimum is missed by all starts. Returns (wmin, n)."""
  D = _DIRS.get(ndir)
  if D is None:
    D = _DIRS[ndir] = fibonacci_sphere(ndir)
  E = [np.asarray(e, dtype=float) for e in extra]
  E = [e / np.linalg.norm(e) for e in E if np.linalg.norm(e) > 1e-150]
  w = hsup_many(a, D) + hsup_many(b, -D)
  order = np.argsort(w)
  k = int(order[0])
  n, best = D[k], float(w[k])
  if refine:
    step = 2.5 * math.sqrt(4 * math.pi / ndir)
    starts = []
    for idx in order[:64]:
      if all(D[idx] @ s0 < math.cos(2 * step) for s0 in starts):
        starts.append(D[idx])
      if len(starts) >= nstart:
        break
    cands = [(float(hsup(a, s0) + hsup(b, -s0)), s0, step) for s0 in starts]
    cands += [(float(hsup(a, e) + hsup(b, -e)), e, 0.05) for e in E]
    for w0, s0, st0 in cands:
      wb, nb = _refine_width(a, b, s0, w0, st0)
      if wb < best:
        best, n = wb, nb
  return best, n


def box_box_sat(a, b):
  """Exact separating-axis analysis for two boxes: returns (max over the 15 axes of the separation, axis).
  separation > 0: boxes are disjoint and the true distance is >= separation;
  separation <= 0: boxes overlap and -separation is the exact penetration depth (minimum translation)."""
  axes = [a.mat[:, i] for i in range(3)] + [b.mat[:, j] for j in range(3)]
  for i in range(3):
    for j in range(3):
      c = np.cross(a.mat[:, i], b.mat[:, j])
      ln = np.linalg.norm(c)
      if ln > 1e-8:
        axes.append(c / ln)
  best, bax = -math.inf, None
  dc = b.pos - a.pos
  for ax in axes:
    ra = float(np.abs(a.mat.T @ ax) @ a.size[:3])
    rb = float(np.abs(b.mat.T @ ax) @ b.size[:3])
    sep = abs(float(dc @ ax)) - ra - rb
    if sep > best:
      best, bax = sep, (ax if dc @ ax >= 0 else -ax)
  return best, bax


# ----------------------------------------------------------------------------- rays

def _quad_roots(a, b, c):
  """Real roots of a x^2 + 2 b x + c = 0 (a > 0), ascending; [] if none."""
  disc = b * b - a * c
  if disc < 0 or a <= 0:
    return []
  s = math.sqrt(disc)
  # numerically stable pair
  q = -(b + math.copysign(s, b)) if b != 0 else s
  r1 = q / a
  r2 = c / q if q != 0 else r1
  return sorted((r1, r2))


def ray_local(typ, size, o, v, shape=None):
  """All candidate surface crossings of the ray o + x v (x real, local frame) as a list of (x, outward normal).
  The caller selects the smallest x >= 0."""
  out = []
  if typ == 'plane':
    if v[2] != 0:
      x = -o[2] / v[2]
      p = o + x * v
      if (size[0] <= 0 or abs(p[0]) <= size[0]) and (size[1] <= 0 or abs(p[1]) <= size[1]):
        out.append((x, np.array([0.0, 0, 1]), 'plane'))
    return out
  if typ == 'sphere':
    for x in _quad_roots(v @ v, v @ o, o @ o - size[0] ** 2):
      p = o + x * v
      out.append((x, p / np.linalg.norm(p), 'sphere'))
    return out
  if typ == 'ellipsoid':
    s2 = 1.0 / size[:3] ** 2
    for x in _quad_roots(float(np.sum(s2 * v * v)), float(np.sum(s2 * v * o)), float(np.sum(s2 * o * o)) - 1.0):
      p = o + x * v
      g = s2 * p
      out.append((x, g / np.linalg.norm(g), 'ellipsoid'))
    return out
  if typ in ('cylinder', 'capsule'):
    r, h = size[0], size[1]
    for x in _quad_roots(v[0] ** 2 + v[1] ** 2, v[0] * o[0] + v[1] * o[1], o[0] ** 2 + o[1] ** 2 - r * r):
      p = o + x * v
      if abs(p[2]) <= h:
        n = np.array([p[0], p[1], 0.0])
        out.append((x, n / np.linalg.norm(n), 'side'))
    if typ == 'cylinder':
      if v[2] != 0:
        for sgn in (-1.0, 1.0):
          x = (sgn * h - o[2]) / v[2]
          p = o + x * v
          if p[0] ** 2 + p[1] ** 2 <= r * r:
            out.append((x, np.array([0, 0, sgn]), 'cap'))
    else:
      for sgn in (-1.0, 1.0):
        c = np.array([0, 0, sgn * h])
        oc = o - c
        for x in _quad_roots(v @ v, v @ oc, oc @ oc - r * r):
          p = o + x * v - c
          if sgn * p[2] >= 0:
            out.append((x, p / np.linalg.norm(p), 'cap'))
    return out
  if typ == 'box':
    s = size[:3]
    for i in range(3):
      if v[i] != 0:
        for sgn in (-1.0, 1.0):
          x = (sgn * s[i] - o[i]) / v[i]
          p = o + x * v
          j, k = (i + 1) % 3, (i + 2) % 3
          if abs(p[j]) <= s[j] and abs(p[k]) <= s[k]:
            n = np.zeros(3)
            n[i] = sgn
            out.append((x, n, 'face'))
    return out
  if typ == 'mesh':
    vv, ff = shape.verts, shape.faces
    cen = vv.mean(axis=0)
    for a, b, c in ff:
      r = moller_trumbore(o, v, vv[a], vv[b], vv[c])
      if r is not None:
        x, n, edge = r
        out.append((x, n, 'tri-edge' if edge else 'tri'))
    return out
  raise ValueError(typ)


def moller_trumbore(o, v, a, b, c, eps=0.0):
  """Ray/triangle: returns (x, geometric normal (cross(b-a,c-a) normalised), near_edge flag) or None."""
  e1, e2 = b - a, c - a
  pv = np.cross(v, e2)
  det = e1 @ pv
  if det == 0:
    return None
  inv = 1.0 / det
  tv = o - a
  u = (tv @ pv) * inv
  qv = np.cross(tv, e1)
  w = (v @ qv) * inv
  if u < -eps or w < -eps or u + w > 1 + eps:
    return None
  x = (e2 @ qv) * inv
  n = np.cross(e1, e2)
  n = n / np.linalg.norm(n)
  edge = min(u, w, 1 - u - w) < 1e-7
  return x, n, edge


def ray_shape(shape, pnt, vec, tangent_tol=1e-9):
  """Nearest intersection x >= 0 of the ray pnt + x*vec with the shape's surface.
  Returns dict(x, normal(world, outward), kind, fragile) or None.
  fragile=True when the answer depends on a decision within tangent_tol (grazing, origin on the surface,
  crossing on an edge of the feature domain): such rays are don't-care for hit/no-hit comparisons."""
  o = shape.to_local(pnt)
  v = shape.dir_local(vec)
  cands = ray_local(shape.typ, shape.size, o, v, shape)
  sc = max(shape.scale() if shape.typ != 'plane' else 1.0, 1e-12)
  vn = float(np.linalg.norm(v))
  hits = [c for c in cands if c[0] >= 0]
  fragile = False
  # origin (numerically) on the surface or roots straddling zero
  for c in cands:
    if abs(c[0]) * vn <= tangent_tol * max(sc, float(np.linalg.norm(o))):
      fragile = True
  if shape.typ == 'plane':
    # one-sided: only rays travelling against the plane normal (from the front) hit
    hits = [c for c in hits if v[2] < 0]
    if abs(v[2]) <= tangent_tol * vn:
      fragile = True
  if not hits:
    return None if not fragile else dict(x=None, fragile=True)
  hits.sort(key=lambda c: c[0])
  x, n, kind = hits[0]
  if len(hits) > 1 and abs(hits[1][0] - x) * vn <= tangent_tol * sc:
    fragile = True       # tangency / edge: two crossings coincide
  if kind == 'tri-edge':
    fragile = True
  return dict(x=float(x), normal=shape.mat @ n, kind=kind, fragile=fragile)


def ray_margin(shape, pnt, vec):
  """Smallest distance between the ray (as a half-line) and the 'decision boundaries' of the shape, used to detect
  grazing rays: returns the minimum over x>=0 of |sdf(pnt + x vec)| sampled near the closest approach.
  Cheap conservative proxy: distance from the line to the shape's silhouette is approximated by sdf at the
  point of closest approach to the shape centre."""
  v = np.asarray(vec, dtype=float)
  vn = v / np.linalg.norm(v)
  t = max(0.0, float((shape.pos - pnt) @ vn))
  return abs(sdf(shape, np.asarray(pnt, dtype=float) + t * vn))
