"""Closed-form mass properties (numpy only), written from textbook formulas - not from the compiler.

Every function returns (measure, com(3), inertia(3x3) about the COM per unit density) in the shape's own frame, where
`measure` is the volume (solid) or the surface area (shell); mass = density * measure.
"""
import math

import numpy as np


def _diag(a, b, c):
  return np.diag([float(a), float(b), float(c)])


# ----------------------------------------------------------------------------- solids

def solid_sphere(r):
  v = 4.0 / 3.0 * math.pi * r ** 3
  return v, np.zeros(3), _diag(*(3 * [0.4 * v * r * r]))


def solid_ellipsoid(a, b, c):
  v = 4.0 / 3.0 * math.pi * a * b * c
  return v, np.zeros(3), v / 5.0 * _diag(b * b + c * c, a * a + c * c, a * a + b * b)


def solid_cylinder(r, h):
  """radius r, half-height h, axis z"""
  v = math.pi * r * r * 2 * h
  ix = v * (3 * r * r + (2 * h) ** 2) / 12.0
  return v, np.zeros(3), _diag(ix, ix, v * r * r / 2.0)


def solid_box(a, b, c):
  v = 8.0 * a * b * c
  return v, np.zeros(3), v / 3.0 * _diag(b * b + c * c, a * a + c * c, a * a + b * b)


def solid_capsule(r, h):
  """cylinder of half-height h plus two hemispheres (each: COM 3r/8 from its flat face, inertia about its own COM
  perpendicular to the axis (83/320) m r^2, about the axis (2/5) m r^2)."""
  vc, _, Ic = solid_cylinder(r, h)
  mh = 2.0 / 3.0 * math.pi * r ** 3
  d = h + 3.0 * r / 8.0
  ix = 83.0 / 320.0 * mh * r * r + mh * d * d
  iz = 0.4 * mh * r * r
  return vc + 2 * mh, np.zeros(3), Ic + 2 * _diag(ix, ix, iz)


# ----------------------------------------------------------------------------- shells (uniform surface density 1)

def shell_sphere(r):
  a = 4 * math.pi * r * r
  return a, np.zeros(3), _diag(*(3 * [2.0 / 3.0 * a * r * r]))


def shell_cylinder(r, h):
  al = 2 * math.pi * r * 2 * h       # lateral
  ad = math.pi * r * r               # one disk
  ix = al * (r * r / 2.0 + (2 * h) ** 2 / 12.0) + 2 * ad * (r * r / 4.0 + h * h)
  iz = al * r * r + 2 * ad * r * r / 2.0
  return al + 2 * ad, np.zeros(3), _diag(ix, ix, iz)


def shell_capsule(r, h):
  al = 2 * math.pi * r * 2 * h
  ah = 2 * math.pi * r * r           # one hemispherical shell: COM r/2 above its rim plane
  # hemisphere about the sphere centre: 2/3 m r^2 for every axis; move to its COM, then to the capsule centre
  ixh = 2.0 / 3.0 * ah * r * r - ah * (r / 2) ** 2 + ah * (h + r / 2) ** 2
  izh = 2.0 / 3.0 * ah * r * r
  ix = al * (r * r / 2.0 + (2 * h) ** 2 / 12.0) + 2 * ixh
  iz = al * r * r + 2 * izh
  return al + 2 * ah, np.zeros(3), _diag(ix, ix, iz)


def shell_box(a, b, c):
  s = [a, b, c]
  area = 0.0
  I = np.zeros(3)
  for k in range(3):                 # pair of faces normal to axis k, rectangle 2s_i x 2s_j at distance s_k
    i, j = (k + 1) % 3, (k + 2) % 3
    af = 4 * s[i] * s[j]
    area += 2 * af
    # rectangle: second moments <x_i^2> = s_i^2/3, <x_j^2> = s_j^2/3, x_k = +-s_k
    I[k] += 2 * af * (s[i] ** 2 / 3 + s[j] ** 2 / 3)
    I[i] += 2 * af * (s[j] ** 2 / 3 + s[k] ** 2)
    I[j] += 2 * af * (s[i] ** 2 / 3 + s[k] ** 2)
  return area, np.zeros(3), np.diag(I)


_GL = {}


def shell_ellipsoid(a, b, c, n=160):
  """Uniform surface density on the ellipsoid: Gauss-Legendre quadrature of dA = sin(t) sqrt(b^2c^2 sin^2t cos^2p +
  a^2c^2 sin^2t sin^2p + a^2b^2 cos^2t) dt dp (exact to ~1e-12 for aspect ratios <= 10)."""
  if n not in _GL:
    _GL[n] = np.polynomial.legendre.leggauss(n)
  x, w = _GL[n]
  t = 0.5 * math.pi * (x + 1)
  wt = 0.5 * math.pi * w
  p = math.pi * (x + 1)
  wp = math.pi * w
  T, P = np.meshgrid(t, p, indexing='ij')
  W = np.outer(wt, wp)
  st, ct, sp, cp = np.sin(T), np.cos(T), np.sin(P), np.cos(P)
  dA = st * np.sqrt((b * c * st * cp) ** 2 + (a * c * st * sp) ** 2 + (a * b * ct) ** 2) * W
  X, Y, Z = a * st * cp, b * st * sp, c * ct
  area = float(np.sum(dA))
  return area, np.zeros(3), _diag(np.sum(dA * (Y * Y + Z * Z)), np.sum(dA * (X * X + Z * Z)), np.sum(dA * (X * X + Y * Y)))


# ----------------------------------------------------------------------------- polyhedra

def solid_mesh(verts, faces):
  """Closed, outward-oriented triangle mesh: volume, COM and inertia about the COM by signed tetrahedra with the origin."""
  v = np.asarray(verts, dtype=float)
  vol = 0.0
  first = np.zeros(3)
  C = np.zeros((3, 3))               # covariance integral  int x x^T dV
  for f in faces:
    a, b, c = v[f[0]], v[f[1]], v[f[2]]
    det = float(np.dot(a, np.cross(b, c)))
    vol += det / 6.0
    first += det / 24.0 * (a + b + c)
    s = a + b + c
    C += det / 120.0 * (np.outer(a, a) + np.outer(b, b) + np.outer(c, c) + np.outer(s, s))
  com = first / vol
  C0 = C - vol * np.outer(com, com)
  I = np.trace(C0) * np.eye(3) - C0
  return vol, com, I


def shell_mesh(verts, faces):
  """Uniform surface density on the triangles."""
  v = np.asarray(verts, dtype=float)
  area = 0.0
  first = np.zeros(3)
  C = np.zeros((3, 3))
  for f in faces:
    a, b, c = v[f[0]], v[f[1]], v[f[2]]
    A = 0.5 * float(np.linalg.norm(np.cross(b - a, c - a)))
    area += A
    s = a + b + c
    first += A * s / 3.0
    C += A / 12.0 * (np.outer(a, a) + np.outer(b, b) + np.outer(c, c) + np.outer(s, s))
  com = first / area
  C0 = C - area * np.outer(com, com)
  return area, com, np.trace(C0) * np.eye(3) - C0


# ----------------------------------------------------------------------------- composition

def primitive(typ, size, shell=False):
  if typ == 'sphere':
    return (shell_sphere if shell else solid_sphere)(size[0])
  if typ == 'capsule':
    return (shell_capsule if shell else solid_capsule)(size[0], size[1])
  if typ == 'cylinder':
    return (shell_cylinder if shell else solid_cylinder)(size[0], size[1])
  if typ == 'ellipsoid':
    return (shell_ellipsoid if shell else solid_ellipsoid)(size[0], size[1], size[2])
  if typ == 'box':
    return (shell_box if shell else solid_box)(size[0], size[1], size[2])
  raise ValueError(typ)


def parallel_axis(mass, d):
  d = np.asarray(d, dtype=float)
  return mass * (float(d @ d) * np.eye(3) - np.outer(d, d))


def combine(parts):
  """parts: list of (mass, com(3) in body frame, inertia(3x3) about that com, expressed in body axes).
  Returns total mass, COM, inertia about the COM."""
  M = sum(p[0] for p in parts)
  com = sum(p[0] * np.asarray(p[1]) for p in parts) / M
  I = np.zeros((3, 3))
  for m, c, Ic in parts:
    I += Ic + parallel_axis(m, np.asarray(c) - com)
  return M, com, I
