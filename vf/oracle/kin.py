"""Reference kinematics in numpy (written from the documentation, not from the engine code).

Conventions (doc/computation/index.rst "General framework", doc/modeling.rst / XMLreference body, joint):
  * quaternions are (w, x, y, z), unit norm; a body frame is (pos, quat) relative to its parent;
  * joints of a body are applied in order, each is defined in the body frame at the time it is applied:
      slide: translation along axis by (q - qpos0); hinge: rotation about axis through the anchor `jnt_pos`
      by (q - qpos0); ball: rotation by the quaternion in qpos about the anchor; free: qpos = world pos + quat;
  * velocities: hinge/slide rates; ball = angular velocity in the frame *after* the joint (so q' = q * exp(w dt));
      free = linear velocity in the world frame followed by angular velocity in the body frame.

Public API (m is a vf.mj Model or a Snap; everything returned is a fresh numpy array):
  snap(m)                                   snapshot of the model arrays used here (do it once per model)
  qmul, qconj, qnormalize, qrot, q2mat, mat2q, axisangle2q, qexp, qlog, quat_dist
  integrate_pos(m, qpos, qvel, dt)          manifold "q + v*dt"
  differentiate_pos(m, qpos1, qpos2, dt)    manifold "(q2 - q1)/dt"
  fk(m, qpos, mocap_pos=None, mocap_quat=None) -> FK (xpos, xquat, xmat, xipos, ximat, xanchor, xaxis,
                                               geom_xpos/xmat, site_xpos/xmat, cam_xpos/xmat, subtree_com, ...)
  jac(m, k, point, body) -> (jacp, jacr)    3 x nv geometric Jacobians of a world point fixed to `body`
  jac_subtree_com(m, k, body) -> jacp
  tendon(m, k) -> (length, J)               fixed tendons and spatial tendons through sites/pulleys (no wrapping geoms)
"""
import numpy as np

FREE, BALL, SLIDE, HINGE = 0, 1, 2, 3


# ------------------------------------------------------------------ quaternion algebra

def qmul(a, b):
  a = np.asarray(a, dtype=np.float64)
  b = np.asarray(b, dtype=np.float64)
  w = a[0] * b[0] - a[1] * b[1] - a[2] * b[2] - a[3] * b[3]
  v = a[0] * b[1:] + b[0] * a[1:] + np.cross(a[1:], b[1:])
  return np.array([w, v[0], v[1], v[2]])


def qconj(q):
  q = np.asarray(q, dtype=np.float64)
  return np.array([q[0], -q[1], -q[2], -q[3]])


def qnormalize(q):
  q = np.asarray(q, dtype=np.float64)
  n = np.linalg.norm(q)
  if n < 1e-300:
    return np.array([1.0, 0, 0, 0])
  return q / n


def q2mat(q):
  w, x, y, z = np.asarray(q, dtype=np.float64)
  return np.array([[1 - 2 * (y * y + z * z), 2 * (x * y - w * z), 2 * (x * z + w * y)],
                   [2 * (x * y + w * z), 1 - 2 * (x * x + z * z), 2 * (y * z - w * x)],
                   [2 * (x * z - w * y), 2 * (y * z + w * x), 1 - 2 * (x * x + y * y)]])


def qrot(q, v):
  return q2mat(q) @ np.asarray(v, dtype=np.float64)


def mat2q(R):
  """Unit quaternion of a rotation matrix (Shepperd's method), w >= 0 branch not enforced."""
  R = np.asarray(R, dtype=np.float64)
  t = np.trace(R)
  c = [t, R[0, 0], R[1, 1], R[2, 2]]
  i = int(np.argmax(c))
  if i == 0:
    s = np.sqrt(1 + t) * 2
    q = [0.25 * s, (R[2, 1] - R[1, 2]) / s, (R[0, 2] - R[2, 0]) / s, (R[1, 0] - R[0, 1]) / s]
  elif i == 1:
    s = np.sqrt(1 + R[0, 0] - R[1, 1] - R[2, 2]) * 2
    q = [(R[2, 1] - R[1, 2]) / s, 0.25 * s, (R[0, 1] + R[1, 0]) / s, (R[0, 2] + R[2, 0]) / s]
  elif i == 2:
    s = np.sqrt(1 + R[1, 1] - R[0, 0] - R[2, 2]) * 2
    q = [(R[0, 2] - R[2, 0]) / s, (R[0, 1] + R[1, 0]) / s, 0.25 * s, (R[1, 2] + R[2, 1]) / s]
  else:
    s = np.sqrt(1 + R[2, 2] - R[0, 0] - R[1, 1]) * 2
    q = [(R[1, 0] - R[0, 1]) / s, (R[0, 2] + R[2, 0]) / s, (R[1, 2] + R[2, 1]) / s, 0.25 * s]
  return qnormalize(np.array(q))


def axisangle2q(axis, angle):
  axis = np.asarray(axis, dtype=np.float64)
  n = np.linalg.norm(axis)
  if n < 1e-300:
    return np.array([1.0, 0, 0, 0])
  s = np.sin(0.5 * angle)
  return np.concatenate([[np.cos(0.5 * angle)], axis / n * s])


def qexp(v):
  """Rotation vector (axis*angle) -> unit quaternion."""
  v = np.asarray(v, dtype=np.float64)
  a = np.linalg.norm(v)
  if a < 1e-300:
    return np.array([1.0, 0, 0, 0])
  return np.concatenate([[np.cos(0.5 * a)], v / a * np.sin(0.5 * a)])


def qlog(q):
  """Unit quaternion -> rotation vector with angle in (-pi, pi]."""
  q = np.asarray(q, dtype=np.float64)
  s = np.linalg.norm(q[1:])
  if s < 1e-300:
    return np.zeros(3)
  ang = 2 * np.arctan2(s, q[0])
  if ang > np.pi:
    ang -= 2 * np.pi
  return q[1:] / s * ang


def quat_dist(a, b):
  """Rotation angle between two unit quaternions (sign-insensitive)."""
  d = abs(float(np.dot(qnormalize(a), qnormalize(b))))
  return 2 * np.arccos(min(1.0, d))


def rotvec2mat(v):
  return q2mat(qexp(v))


def skew(v):
  return np.array([[0, -v[2], v[1]], [v[2], 0, -v[0]], [-v[1], v[0], 0.0]])


# ------------------------------------------------------------------ model snapshot

_FIELDS = ('body_parentid', 'body_rootid', 'body_weldid', 'body_mocapid', 'body_jntnum', 'body_jntadr', 'body_dofnum', 'body_dofadr',
           'body_pos', 'body_quat', 'body_ipos', 'body_iquat', 'body_mass', 'body_subtreemass', 'body_inertia',
           'body_gravcomp', 'jnt_type', 'jnt_qposadr', 'jnt_dofadr', 'jnt_bodyid', 'jnt_pos', 'jnt_axis',
           'jnt_stiffness', 'jnt_stiffnesspoly', 'jnt_actuatorid', 'dof_bodyid', 'dof_jntid', 'dof_parentid',
           'dof_armature', 'dof_damping', 'dof_dampingpoly', 'qpos0', 'qpos_spring', 'geom_bodyid', 'geom_pos',
           'geom_quat', 'site_bodyid', 'site_pos', 'site_quat', 'cam_bodyid', 'cam_pos', 'cam_quat', 'cam_mode',
           'light_bodyid', 'light_pos', 'light_dir', 'light_mode',
           'tendon_adr', 'tendon_num', 'tendon_armature', 'tendon_stiffness', 'tendon_stiffnesspoly',
           'tendon_damping', 'tendon_dampingpoly', 'tendon_lengthspring', 'tendon_actuatorid', 'wrap_type',
           'wrap_objid', 'wrap_prm', 'actuator_trntype', 'actuator_trnid', 'actuator_gear', 'actuator_armature',
           'actuator_damping', 'actuator_dampingpoly', 'actuator_outadr')


class Snap:
  """Copy of the model arrays the oracles need (cheap attribute access, immune to later engine calls)."""
  is_snap = True

  def __init__(self, m):
    for f in _FIELDS:
      try:
        setattr(self, f, np.array(getattr(m, f)))
      except Exception:
        setattr(self, f, None)
    for f in ('nq', 'nv', 'nbody', 'njnt', 'ngeom', 'nsite', 'ncam', 'nlight', 'ntendon', 'nmocap', 'na', 'nu'):
      setattr(self, f, int(getattr(m, f)))
    self.nactuator = int(getattr(m, 'nactuator', self.nu))
    self.gravity = np.array(m.opt.gravity, dtype=np.float64)
    e = m._lib.enums
    self.FREE, self.BALL, self.SLIDE, self.HINGE = e.mjJNT_FREE, e.mjJNT_BALL, e.mjJNT_SLIDE, e.mjJNT_HINGE
    self.WRAP_JOINT, self.WRAP_PULLEY, self.WRAP_SITE = e.mjWRAP_JOINT, e.mjWRAP_PULLEY, e.mjWRAP_SITE
    self.TRN_JOINT, self.TRN_JOINTINPARENT, self.TRN_TENDON = e.mjTRN_JOINT, e.mjTRN_JOINTINPARENT, e.mjTRN_TENDON
    self.NPOLY = int(getattr(e, 'mjNPOLY', 0)) if hasattr(e, 'mjNPOLY') else (
        self.jnt_stiffnesspoly.shape[1] if self.jnt_stiffnesspoly is not None and self.jnt_stiffnesspoly.ndim == 2 else 0)
    # children lists / subtree membership
    self.children = [[] for _ in range(self.nbody)]
    for b in range(1, self.nbody):
      self.children[int(self.body_parentid[b])].append(b)
    # dofs of each joint
    self.jnt_ndof = [6 if t == self.FREE else 3 if t == self.BALL else 1 for t in self.jnt_type]

  def subtree(self, b):
    out, todo = [], [b]
    while todo:
      x = todo.pop()
      out.append(x)
      todo += self.children[x]
    return sorted(out)

  def ancestors(self, b):
    """b, parent(b), ... excluding the world."""
    out = []
    while b > 0:
      out.append(b)
      b = int(self.body_parentid[b])
    return out


def snap(m):
  return m if getattr(m, 'is_snap', False) else Snap(m)


# ------------------------------------------------------------------ configuration manifold

def integrate_pos(m, qpos, qvel, dt):
  S = snap(m)
  q = np.array(qpos, dtype=np.float64).copy()
  v = np.asarray(qvel, dtype=np.float64)
  for j in range(S.njnt):
    t, pa, va = S.jnt_type[j], int(S.jnt_qposadr[j]), int(S.jnt_dofadr[j])
    if t == S.FREE:
      q[pa:pa + 3] += dt * v[va:va + 3]
      q[pa + 3:pa + 7] = qnormalize(qmul(q[pa + 3:pa + 7], qexp(v[va + 3:va + 6] * dt)))
    elif t == S.BALL:
      q[pa:pa + 4] = qnormalize(qmul(q[pa:pa + 4], qexp(v[va:va + 3] * dt)))
    else:
      q[pa] += dt * v[va]
  return q


def differentiate_pos(m, qpos1, qpos2, dt):
  """v such that integrate_pos(qpos1, v, dt) == qpos2 (shortest rotation for quaternions)."""
  S = snap(m)
  q1 = np.asarray(qpos1, dtype=np.float64)
  q2 = np.asarray(qpos2, dtype=np.float64)
  v = np.zeros(S.nv)
  for j in range(S.njnt):
    t, pa, va = S.jnt_type[j], int(S.jnt_qposadr[j]), int(S.jnt_dofadr[j])
    if t == S.FREE:
      v[va:va + 3] = (q2[pa:pa + 3] - q1[pa:pa + 3]) / dt
      v[va + 3:va + 6] = qlog(qmul(qconj(qnormalize(q1[pa + 3:pa + 7])), qnormalize(q2[pa + 3:pa + 7]))) / dt
    elif t == S.BALL:
      v[va:va + 3] = qlog(qmul(qconj(qnormalize(q1[pa:pa + 4])), qnormalize(q2[pa:pa + 4]))) / dt
    else:
      v[va] = (q2[pa] - q1[pa]) / dt
  return v


# ------------------------------------------------------------------ forward kinematics

class FK:
  pass


def fk(m, qpos, mocap_pos=None, mocap_quat=None):
  S = snap(m)
  q = np.asarray(qpos, dtype=np.float64)
  nb = S.nbody
  k = FK()
  k.S = S
  k.qpos = q.copy()
  k.xpos = np.zeros((nb, 3))
  k.xmat = np.zeros((nb, 3, 3))
  k.xquat = np.zeros((nb, 4))
  k.xmat[0] = np.eye(3)
  k.xquat[0] = [1, 0, 0, 0]
  k.xanchor = np.zeros((S.njnt, 3))
  k.xaxis = np.zeros((S.njnt, 3))
  k.jnt_Rafter = np.zeros((S.njnt, 3, 3))     # orientation of the moving frame right after the joint
  k.jnt_Rbefore = np.zeros((S.njnt, 3, 3))
  for b in range(1, nb):
    par = int(S.body_parentid[b])
    ja, jn = int(S.body_jntadr[b]), int(S.body_jntnum[b])
    if jn == 1 and S.jnt_type[ja] == S.FREE:
      pa = int(S.jnt_qposadr[ja])
      p = q[pa:pa + 3].copy()
      quat = qnormalize(q[pa + 3:pa + 7])
      R = q2mat(quat)
      k.xanchor[ja] = p
      k.xaxis[ja] = S.jnt_axis[ja]
      k.jnt_Rbefore[ja] = np.eye(3)
      k.jnt_Rafter[ja] = R
    else:
      mid = int(S.body_mocapid[b]) if S.body_mocapid is not None else -1
      if mid >= 0 and mocap_pos is not None:
        bpos = np.asarray(mocap_pos, dtype=np.float64).reshape(-1, 3)[mid]
        bquat = qnormalize(np.asarray(mocap_quat, dtype=np.float64).reshape(-1, 4)[mid])
      else:
        bpos, bquat = S.body_pos[b], S.body_quat[b]
      p = k.xpos[par] + k.xmat[par] @ bpos
      quat = qmul(k.xquat[par], bquat)
      R = k.xmat[par] @ q2mat(bquat)
      for j in range(ja, ja + jn):
        t, pa = S.jnt_type[j], int(S.jnt_qposadr[j])
        anchor = p + R @ S.jnt_pos[j]
        axis = R @ S.jnt_axis[j]
        k.jnt_Rbefore[j] = R
        if t == S.SLIDE:
          p = p + axis * (q[pa] - S.qpos0[pa])
        elif t == S.HINGE or t == S.BALL:
          ql = qnormalize(q[pa:pa + 4]) if t == S.BALL else axisangle2q(S.jnt_axis[j], q[pa] - S.qpos0[pa])
          quat = qmul(quat, ql)
          R = R @ q2mat(ql)
          p = anchor - R @ S.jnt_pos[j]
        else:
          raise ValueError('free joint combined with other joints')
        k.xanchor[j] = anchor
        k.xaxis[j] = axis
        k.jnt_Rafter[j] = R
      quat = qnormalize(quat)
    k.xpos[b] = p
    k.xquat[b] = quat
    k.xmat[b] = q2mat(quat)
  # inertial frames, geoms, sites, cameras, lights
  k.xipos = np.zeros((nb, 3))
  k.ximat = np.zeros((nb, 3, 3))
  k.ximat[0] = np.eye(3)
  for b in range(1, nb):
    k.xipos[b] = k.xpos[b] + k.xmat[b] @ S.body_ipos[b]
    k.ximat[b] = k.xmat[b] @ q2mat(S.body_iquat[b])

  def attach(n, bodyid, pos, quat):
    xp = np.zeros((n, 3))
    xm = np.zeros((n, 3, 3))
    for i in range(n):
      b = int(bodyid[i])
      xp[i] = k.xpos[b] + k.xmat[b] @ pos[i]
      xm[i] = k.xmat[b] @ q2mat(quat[i])
    return xp, xm
  k.geom_xpos, k.geom_xmat = attach(S.ngeom, S.geom_bodyid, S.geom_pos, S.geom_quat)
  k.site_xpos, k.site_xmat = attach(S.nsite, S.site_bodyid, S.site_pos, S.site_quat)
  k.cam_xpos, k.cam_xmat = attach(S.ncam, S.cam_bodyid, S.cam_pos, S.cam_quat)   # valid for mode "fixed" only
  k.light_xpos = np.zeros((S.nlight, 3))
  k.light_xdir = np.zeros((S.nlight, 3))
  for i in range(S.nlight):
    b = int(S.light_bodyid[i])
    k.light_xpos[i] = k.xpos[b] + k.xmat[b] @ S.light_pos[i]
    k.light_xdir[i] = k.xmat[b] @ S.light_dir[i]
  # subtree centre of mass
  k.subtree_com = np.zeros((nb, 3))
  mom = np.array([S.body_mass[b] * k.xipos[b] for b in range(nb)]).reshape(nb, 3)
  mass = np.array(S.body_mass, dtype=np.float64).copy()
  for b in range(nb - 1, 0, -1):
    par = int(S.body_parentid[b])
    mom[par] += mom[b]
    mass[par] += mass[b]
  k.subtree_mass = mass
  for b in range(nb):
    k.subtree_com[b] = mom[b] / mass[b] if mass[b] > 1e-15 else k.xipos[b]
  return k


# ------------------------------------------------------------------ Jacobians

def dof_columns(k, body):
  """List of (dof index, kind, axis, anchor) for every dof that moves `body`; kind 'rot' or 'lin'."""
  S = k.S
  out = []
  for a in S.ancestors(body):
    ja, jn = int(S.body_jntadr[a]), int(S.body_jntnum[a])
    for j in range(ja, ja + jn):
      t, va = S.jnt_type[j], int(S.jnt_dofadr[j])
      if t == S.FREE:
        for i in range(3):
          e = np.zeros(3)
          e[i] = 1
          out.append((va + i, 'lin', e, None))
        for i in range(3):
          out.append((va + 3 + i, 'rot', k.jnt_Rafter[j][:, i].copy(), k.xanchor[j]))
      elif t == S.BALL:
        for i in range(3):
          out.append((va + i, 'rot', k.jnt_Rafter[j][:, i].copy(), k.xanchor[j]))
      elif t == S.HINGE:
        out.append((va, 'rot', k.xaxis[j], k.xanchor[j]))
      else:
        out.append((va, 'lin', k.xaxis[j], None))
  return out


def jac(m, k, point, body):
  """Geometric Jacobians (3 x nv): d point / d q and angular velocity map of the frame of `body`."""
  S = k.S
  point = np.asarray(point, dtype=np.float64)
  jp = np.zeros((3, S.nv))
  jr = np.zeros((3, S.nv))
  for (i, kind, axis, anchor) in dof_columns(k, body):
    if kind == 'lin':
      jp[:, i] = axis
    else:
      jr[:, i] = axis
      jp[:, i] = np.cross(axis, point - anchor)
  return jp, jr


def jac_subtree_com(m, k, body):
  S = k.S
  jp = np.zeros((3, S.nv))
  tot = 0.0
  for b in S.subtree(body):
    jb, _ = jac(m, k, k.xipos[b], b)
    jp += S.body_mass[b] * jb
    tot += S.body_mass[b]
  return jp / tot


# ------------------------------------------------------------------ tendons (no wrapping geometry)

def tendon(m, k):
  """(length (ntendon,), J (ntendon, nv)) for fixed tendons and spatial tendons made of sites and pulleys.
  Raises NotImplementedError for sphere/cylinder wrapping."""
  S = k.S
  L = np.zeros(S.ntendon)
  J = np.zeros((S.ntendon, S.nv))
  for t in range(S.ntendon):
    a, n = int(S.tendon_adr[t]), int(S.tendon_num[t])
    types = [int(S.wrap_type[a + i]) for i in range(n)]
    if types and types[0] == S.WRAP_JOINT:
      for i in range(n):
        j = int(S.wrap_objid[a + i])
        c = float(S.wrap_prm[a + i])
        L[t] += c * k.qpos[int(S.jnt_qposadr[j])]
        J[t, int(S.jnt_dofadr[j])] += c
      continue
    div = 1.0
    prev = None
    for i in range(n):
      ty = types[i]
      if ty == S.WRAP_PULLEY:
        div = float(S.wrap_prm[a + i])
        prev = None
      elif ty == S.WRAP_SITE:
        s = int(S.wrap_objid[a + i])
        if prev is not None:
          d = k.site_xpos[s] - k.site_xpos[prev]
          dist = np.linalg.norm(d)
          L[t] += dist / div
          if dist > 1e-12:
            u = d / dist
            j1, _ = jac(m, k, k.site_xpos[s], int(S.site_bodyid[s]))
            j0, _ = jac(m, k, k.site_xpos[prev], int(S.site_bodyid[prev]))
            J[t] += u @ (j1 - j0) / div
        prev = s
      else:
        raise NotImplementedError('wrapping geometry')
  return L, J
