"""Independent reference checker of the index relations of a compiled mjModel.

Written from the field comments of include/mujoco/mjmodel.h ("id of X", "start addr of X; -1: none",
"number of X", "(n x k)") and the object/enum tables of mjtype.h - NOT from mj_validateReferences.  It is deliberately
lenient wherever the header comment leaves room (an address is only checked when its count is non-zero; -1 is
accepted wherever the comment mentions a "none" value or the compiler emits it for empty ranges), so that every model
produced by the compiler passes (checked at run time by the callers on all uncorrupted models; a failure there is a
harness error, never a verdict).

  problems = modelref.check(lib, m)          -> list of Problem(field, index, value, why)
  table    = modelref.relations(lib)         -> list of Rel (used by C31 to enumerate out-of-range values per field)
"""
import collections

import numpy as np

Problem = collections.namedtuple('Problem', 'field index value why kind num', defaults=('special', 0))
# kind: 'id' (value in [lo, target)), 'adrnum' (adr, num arrays; range inside [0, target)), 'rows' (sparse rows),
#       'name' (address into names), 'special'
Rel = collections.namedtuple('Rel', 'field kind target lo num extra')


def _R(field, kind, target, lo=0, num=None, extra=None):
  return Rel(field, kind, target, lo, num, extra)


# ---- plain ids:  field -> (target size, lowest legal value)
IDS = [
    ('body_parentid', 'nbody', 0), ('body_rootid', 'nbody', 0), ('body_weldid', 'nbody', 0),
    ('body_mocapid', 'nmocap', -1), ('body_treeid', 'ntree', -1), ('body_plugin', 'nplugin', -1),
    ('bvh_child', 'nbvh', -1), ('oct_child', 'noct', -1),
    ('jnt_bodyid', 'nbody', 0), ('jnt_actuatorid', 'nactuator', -1),
    ('dof_bodyid', 'nbody', 0), ('dof_jntid', 'njnt', 0), ('dof_parentid', 'nv', -1), ('dof_treeid', 'ntree', 0),
    ('dof_Madr', 'nM', 0),
    ('geom_bodyid', 'nbody', 0), ('geom_matid', 'nmat', -1), ('geom_plugin', 'nplugin', -1),
    ('site_bodyid', 'nbody', 0), ('site_matid', 'nmat', -1),
    ('cam_bodyid', 'nbody', 0), ('cam_targetbodyid', 'nbody', -1),
    ('light_bodyid', 'nbody', 0), ('light_targetbodyid', 'nbody', -1), ('light_texid', 'ntex', -1),
    ('flex_matid', 'nmat', -1), ('flex_nodebodyid', 'nbody', -1), ('flex_vertbodyid', 'nbody', -1),
    ('flex_texcoordadr', 'nflextexcoord', -1),
    ('mesh_graphadr', 'nmeshgraph', -1), ('mesh_pathadr', 'npaths', -1),
    ('mesh_facenormal', 'nmeshnormal', 0), ('mesh_polyvert', 'nmeshvert', 0), ('mesh_polymap', 'nmeshpoly', 0),
    ('skin_matid', 'nmat', -1), ('skin_texcoordadr', 'nskintexvert', -1), ('skin_bonebodyid', 'nbody', 0),
    ('skin_bonevertid', 'nskinvert', 0), ('skin_face', 'nskinvert', 0), ('skin_pathadr', 'npaths', -1),
    ('hfield_pathadr', 'npaths', -1), ('tex_pathadr', 'npaths', -1),
    ('mat_texid', 'ntex', -1),
    ('pair_geom1', 'ngeom', 0), ('pair_geom2', 'ngeom', 0),
    ('tendon_matid', 'nmat', -1), ('tendon_actuatorid', 'nactuator', -1), ('tendon_treeid', 'ntree', -1),
    ('ten_J_colind', 'nv', 0),
    ('actuator_plugin', 'nplugin', -1), ('sensor_plugin', 'nplugin', -1),
    ('plugin_attradr', 'npluginattr', -1),
    ('B_colind', 'nv', 0), ('M_colind', 'nv', 0), ('D_colind', 'nv', 0),
    ('mapM2M', 'nM', 0), ('mapM2D', 'nC', -1), ('mapD2M', 'nD', 0),
    ('efm0_dofid', 'nv', 0), ('efm0_L_colind', 'nefm0dof', 0),
    ('flexedge_J_colind', 'nv', 0), ('flexvert_J_colind', 'nv', 0),
]

# ---- (adr array, num array, target size): the range [adr, adr+num) must lie in [0, target) whenever num > 0
ADRNUM = [
    ('body_jntadr', 'body_jntnum', 'njnt'), ('body_dofadr', 'body_dofnum', 'nv'),
    ('body_geomadr', 'body_geomnum', 'ngeom'), ('body_bvhadr', 'body_bvhnum', 'nbvh'),
    ('tree_bodyadr', 'tree_bodynum', 'nbody'), ('tree_dofadr', 'tree_dofnum', 'nv'),
    ('flex_nodeadr', 'flex_nodenum', 'nflexnode'), ('flex_vertadr', 'flex_vertnum', 'nflexvert'),
    ('flex_edgeadr', 'flex_edgenum', 'nflexedge'), ('flex_elemadr', 'flex_elemnum', 'nflexelem'),
    ('flex_evpairadr', 'flex_evpairnum', 'nflexevpair'), ('flex_bvhadr', 'flex_bvhnum', 'nbvh'),
    ('mesh_vertadr', 'mesh_vertnum', 'nmeshvert'), ('mesh_faceadr', 'mesh_facenum', 'nmeshface'),
    ('mesh_bvhadr', 'mesh_bvhnum', 'nbvh'), ('mesh_octadr', 'mesh_octnum', 'noct'),
    ('mesh_normaladr', 'mesh_normalnum', 'nmeshnormal'), ('mesh_texcoordadr', 'mesh_texcoordnum', 'nmeshtexcoord'),
    ('mesh_polyadr', 'mesh_polynum', 'nmeshpoly'), ('mesh_polyvertadr', 'mesh_polyvertnum', 'nmeshpolyvert'),
    ('mesh_polymapadr', 'mesh_polymapnum', 'nmeshpolymap'),
    ('skin_vertadr', 'skin_vertnum', 'nskinvert'), ('skin_faceadr', 'skin_facenum', 'nskinface'),
    ('skin_boneadr', 'skin_bonenum', 'nskinbone'), ('skin_bonevertadr', 'skin_bonevertnum', 'nskinbonevert'),
    ('tendon_adr', 'tendon_num', 'nwrap'),
    ('actuator_ctrladr', 'actuator_ctrlnum', 'nu'), ('actuator_outadr', 'actuator_outnum', 'nout'),
    ('actuator_actadr', 'actuator_actnum', 'na'),
    ('plugin_stateadr', 'plugin_statenum', 'npluginstate'),
    ('numeric_adr', 'numeric_size', 'nnumericdata'), ('text_adr', 'text_size', 'ntextdata'),
    ('tuple_adr', 'tuple_size', 'ntupledata'),
    # sparse row structures: rowadr[i] + rownnz[i] <= number of stored non-zeros
    ('ten_J_rowadr', 'ten_J_rownnz', 'nJten'),
    ('B_rowadr', 'B_rownnz', 'nB'), ('M_rowadr', 'M_rownnz', 'nC'), ('D_rowadr', 'D_rownnz', 'nD'),
    ('efm0_L_rowadr', 'efm0_L_rownnz', 'nefm0L'),
    ('flexedge_J_rowadr', 'flexedge_J_rownnz', 'nJfe'),
]

NAMEADR = ['name_bodyadr', 'name_jntadr', 'name_geomadr', 'name_siteadr', 'name_camadr', 'name_lightadr',
           'name_flexadr', 'name_meshadr', 'name_skinadr', 'name_hfieldadr', 'name_texadr', 'name_matadr',
           'name_pairadr', 'name_excludeadr', 'name_eqadr', 'name_tendonadr', 'name_actuatoradr', 'name_sensoradr',
           'name_numericadr', 'name_textadr', 'name_tupleadr', 'name_keyadr', 'name_pluginadr']

SPECIAL = ['jnt_type', 'jnt_qposadr', 'jnt_dofadr', 'geom_type', 'geom_condim', 'geom_dataid', 'hfield_adr', 'tex_adr',
           'pair_signature', 'exclude_signature', 'eq_obj1id', 'eq_obj2id', 'wrap_objid', 'actuator_trnid',
           'sensor_objid', 'sensor_refid', 'sensor_adr', 'tuple_objid', 'dof_simplenum', 'mesh_face',
           'mesh_facetexcoord', 'D_diag', 'actuator_historyadr', 'sensor_historyadr']


_REL_CACHE = {}


def relations(lib):
  key = id(lib)
  if key not in _REL_CACHE:
    _REL_CACHE[key] = _relations(lib)
  return _REL_CACHE[key]


def _relations(lib):
  out = []
  have = set(lib.model_fields)
  sizes = set(lib.model_sizes)
  for f, t, lo in IDS:
    if f in have and t in sizes:
      out.append(_R(f, 'id', t, lo))
  for a, n, t in ADRNUM:
    if a in have and n in have and t in sizes:
      out.append(_R(a, 'adrnum', t, 0, n))
  for f in NAMEADR:
    if f in have:
      out.append(_R(f, 'name', 'nnames', 0))
  for f in SPECIAL:
    if f in have:
      out.append(_R(f, 'special', None))
  return out


def objcount(lib, m, objtype):
  """Number of objects of an mjtObj type (None: type carries no id, e.g. mjOBJ_UNKNOWN; -2: not an object type)."""
  E = lib.enums
  tab = {E.mjOBJ_BODY: 'nbody', E.mjOBJ_XBODY: 'nbody', E.mjOBJ_JOINT: 'njnt', E.mjOBJ_DOF: 'nv', E.mjOBJ_GEOM: 'ngeom',
         E.mjOBJ_SITE: 'nsite', E.mjOBJ_CAMERA: 'ncam', E.mjOBJ_LIGHT: 'nlight', E.mjOBJ_FLEX: 'nflex',
         E.mjOBJ_MESH: 'nmesh', E.mjOBJ_SKIN: 'nskin', E.mjOBJ_HFIELD: 'nhfield', E.mjOBJ_TEXTURE: 'ntex',
         E.mjOBJ_MATERIAL: 'nmat', E.mjOBJ_PAIR: 'npair', E.mjOBJ_EXCLUDE: 'nexclude', E.mjOBJ_EQUALITY: 'neq',
         E.mjOBJ_TENDON: 'ntendon', E.mjOBJ_ACTUATOR: 'nactuator', E.mjOBJ_SENSOR: 'nsensor',
         E.mjOBJ_NUMERIC: 'nnumeric', E.mjOBJ_TEXT: 'ntext', E.mjOBJ_TUPLE: 'ntuple', E.mjOBJ_KEY: 'nkey',
         E.mjOBJ_PLUGIN: 'nplugin'}
  if objtype in tab:
    return int(getattr(m, tab[objtype]))
  if objtype in (E.mjOBJ_UNKNOWN, E.mjOBJ_FRAME, E.mjOBJ_DEFAULT, E.mjOBJ_MODEL):
    return None
  return -2


def _first_bad(mask):
  i = np.flatnonzero(mask.ravel())
  return int(i[0]) if i.size else None


def check(lib, m, fields=None, limit=8):
  """Problems of model m (at most `limit`). fields: restrict to relations whose primary field is in this set."""
  E = lib.enums
  out = []

  def want(f):
    return fields is None or f in fields

  def add(f, idx, val, why, kind='special', num=0):
    out.append(Problem(f, int(idx), int(val), why, kind, int(num)))

  for r in relations(lib):
    if len(out) >= limit:
      break
    f = r.field
    if not want(f) and not (r.kind == 'adrnum' and want(r.num)):
      continue
    if r.kind == 'id':
      a = np.asarray(getattr(m, f)).astype(np.int64)
      n = int(getattr(m, r.target))
      i = _first_bad((a < r.lo) | (a >= n))
      if i is not None:
        add(f, i, a.ravel()[i], 'id not in [%d, %s=%d)' % (r.lo, r.target, n), 'id')
    elif r.kind == 'adrnum':
      a = np.asarray(getattr(m, f)).astype(np.int64).ravel()
      k = np.asarray(getattr(m, r.num)).astype(np.int64).ravel()
      n = int(getattr(m, r.target))
      if a.shape != k.shape:
        continue
      i = _first_bad(k < 0)
      if i is not None:
        add(r.num, i, k[i], 'negative count', 'num')
        continue
      i = _first_bad((k > 0) & ((a < 0) | (a + k > n)))
      if i is not None:
        add(f, i, a[i], 'range [adr, adr+%d) not inside [0, %s=%d)' % (k[i], r.target, n), 'adr', k[i])
    elif r.kind == 'name':
      a = np.asarray(getattr(m, f)).astype(np.int64)
      n = int(m.nnames)
      i = _first_bad((a < 0) | (a >= n))
      if i is not None:
        add(f, i, a.ravel()[i], 'name address not in [0, nnames=%d)' % n, 'name')
  if len(out) >= limit:
    return out

  I = lambda name: np.asarray(getattr(m, name)).astype(np.int64)
  # joints: qpos/dof ranges by joint type (free 7/6, ball 4/3, slide 1/1, hinge 1/1 - mjtJoint comments)
  if m.njnt and (want('jnt_type') or want('jnt_qposadr') or want('jnt_dofadr')):
    t = I('jnt_type')
    bad = _first_bad((t < 0) | (t > 3))
    if bad is not None:
      add('jnt_type', bad, t[bad], 'not an mjtJoint')
    else:
      npos = np.array([7, 4, 1, 1])[t]
      nvel = np.array([6, 3, 1, 1])[t]
      qa, da = I('jnt_qposadr'), I('jnt_dofadr')
      i = _first_bad((qa < 0) | (qa + npos > m.nq))
      if i is not None:
        add('jnt_qposadr', i, qa[i], 'qpos range outside [0, nq=%d)' % m.nq)
      i = _first_bad((da < 0) | (da + nvel > m.nv))
      if i is not None:
        add('jnt_dofadr', i, da[i], 'dof range outside [0, nv=%d)' % m.nv)
  if m.nv and want('dof_simplenum'):
    s = I('dof_simplenum')
    i = _first_bad((s < 0) | (np.arange(m.nv) + s > m.nv))
    if i is not None:
      add('dof_simplenum', i, s[i], 'run of simple dofs leaves [0, nv)')
  if m.nv and want('D_diag') and 'D_diag' in lib.model_fields:
    dd = I('D_diag')
    i = _first_bad((dd < 0) | (dd >= max(int(m.nD), 1)))
    if i is not None:
      add('D_diag', i, dd[i], 'not in [0, nD)')
  if m.ngeom and (want('geom_type') or want('geom_dataid') or want('geom_condim')):
    t = I('geom_type')
    i = _first_bad((t < 0) | (t >= E.mjNGEOMTYPES))
    if i is not None:
      add('geom_type', i, t[i], 'not a regular mjtGeom')
    c = I('geom_condim')
    i = _first_bad(~np.isin(c, [1, 3, 4, 6]))
    if i is not None:
      add('geom_condim', i, c[i], 'condim not in {1,3,4,6}')
    did = I('geom_dataid')
    ismesh = (t == E.mjGEOM_MESH) | (t == E.mjGEOM_SDF)
    i = _first_bad(ismesh & ((did < -1) | (did >= m.nmesh)))
    if i is not None:
      add('geom_dataid', i, did[i], 'mesh id not in [-1, nmesh=%d)' % m.nmesh, 'branch:mesh')
    # primitive geoms: "id of geom's mesh/hfield; -1: none" - a primitive fitted to a mesh keeps the mesh id, and the
    # collision code follows a non-negative id for every geom type, so the id must be a mesh id or -1
    prim = ~ismesh & (t != E.mjGEOM_HFIELD)
    i = _first_bad(prim & ((did < -1) | (did >= m.nmesh)))
    if i is not None:
      add('geom_dataid', i, did[i], 'data id of a primitive geom not in [-1, nmesh=%d)' % m.nmesh, 'branch:primitive')
    i = _first_bad((t == E.mjGEOM_HFIELD) & ((did < -1) | (did >= m.nhfield)))
    if i is not None:
      add('geom_dataid', i, did[i], 'hfield id not in [-1, nhfield=%d)' % m.nhfield, 'branch:hfield')
  if m.nhfield and want('hfield_adr'):
    a, r, c = I('hfield_adr'), I('hfield_nrow'), I('hfield_ncol')
    i = _first_bad((a < 0) | (r < 0) | (c < 0) | (a + r * c > m.nhfielddata))
    if i is not None:
      add('hfield_adr', i, a[i], 'elevation block outside hfield_data')
  if m.ntex and want('tex_adr'):
    a, h, w, ch = I('tex_adr'), I('tex_height'), I('tex_width'), I('tex_nchannel')
    i = _first_bad((a < 0) | (h < 0) | (w < 0) | (ch < 0) | (a + h * w * ch > m.ntexdata))
    if i is not None:
      add('tex_adr', i, a[i], 'image block outside tex_data')
  for f, n in (('pair_signature', 'npair'), ('exclude_signature', 'nexclude')):
    if getattr(m, n) and want(f):
      s = I(f)
      b1, b2 = s & 0xFFFF, s >> 16
      i = _first_bad((b1 >= m.nbody) | (b2 >= m.nbody) | (b2 < 0))
      if i is not None:
        add(f, i, s[i], 'body1<<16+body2 names a body >= nbody')
  if m.neq and (want('eq_obj1id') or want('eq_obj2id')):
    ty, o1, o2, ot = I('eq_type'), I('eq_obj1id'), I('eq_obj2id'), I('eq_objtype')
    for i in range(m.neq):
      if ty[i] in (E.mjEQ_CONNECT, E.mjEQ_WELD):
        n = objcount(lib, m, int(ot[i]))
        n = -2 if n is None else n
        lo2 = 0
      elif ty[i] == E.mjEQ_JOINT:
        n, lo2 = m.njnt, -1
      elif ty[i] == E.mjEQ_TENDON:
        n, lo2 = m.ntendon, -1
      elif ty[i] in (E.mjEQ_FLEX, E.mjEQ_FLEXVERT, E.mjEQ_FLEXSTRAIN):
        n, lo2 = m.nflex, -1
      else:
        add('eq_type', i, ty[i], 'unsupported equality type')
        continue
      br = 'branch:eqtype%d' % ty[i] + (':objtype%d' % ot[i] if ty[i] in (E.mjEQ_CONNECT, E.mjEQ_WELD) else '')
      if n == -2:
        add('eq_objtype', i, ot[i], 'not an object type')
      elif not 0 <= o1[i] < n:
        add('eq_obj1id', i, o1[i], 'not in [0, %d)' % n, br)
      elif not lo2 <= o2[i] < n:
        add('eq_obj2id', i, o2[i], 'not in [%d, %d)' % (lo2, n), br)
  if m.nwrap and want('wrap_objid'):
    ty, o = I('wrap_type'), I('wrap_objid')
    for tt, n in ((E.mjWRAP_JOINT, m.njnt), (E.mjWRAP_SITE, m.nsite), (E.mjWRAP_SPHERE, m.ngeom),
                  (E.mjWRAP_CYLINDER, m.ngeom)):
      i = _first_bad((ty == tt) & ((o < 0) | (o >= n)))
      if i is not None:
        add('wrap_objid', i, o[i], 'wrap object id not in [0, %d)' % n, 'branch:wraptype%d' % tt)
    i = _first_bad((ty < 0) | (ty > E.mjWRAP_CYLINDER))
    if i is not None:
      add('wrap_type', i, ty[i], 'not an mjtWrap')
  if m.nactuator and want('actuator_trnid'):
    ty, tr = I('actuator_trntype'), I('actuator_trnid').reshape(-1, 2)
    for i in range(m.nactuator):
      a, b = tr[i]
      t = ty[i]
      bad = bad2 = None
      if t in (E.mjTRN_JOINT, E.mjTRN_JOINTINPARENT):
        bad = not 0 <= a < m.njnt
      elif t == E.mjTRN_TENDON:
        bad = not 0 <= a < m.ntendon
      elif t == E.mjTRN_SITE:
        bad, bad2 = not 0 <= a < m.nsite, not -1 <= b < m.nsite
      elif t == E.mjTRN_SLIDERCRANK:
        bad, bad2 = not 0 <= a < m.nsite, not 0 <= b < m.nsite
      elif t == E.mjTRN_BODY:
        bad = not 0 <= a < m.nbody
      elif t == getattr(E, 'mjTRN_SO3', -99):
        if b == -1:
          bad = not 0 <= a < m.njnt
        else:
          bad, bad2 = not 0 <= a < m.nsite, not 0 <= b < m.nsite
      elif t == E.mjTRN_UNDEFINED:
        bad = False
      else:
        add('actuator_trntype', i, t, 'not an mjtTrn')
        continue
      if bad or bad2:
        add('actuator_trnid', 2 * i + (0 if bad else 1), a if bad else b,
            'transmission target (%d,%d) out of range for trntype %d' % (a, b, t),
            'branch:trntype%d:%s' % (t, 'first' if bad else 'second'))
        break
  for pre, n in (('actuator', 'nactuator'), ('sensor', 'nsensor')):
    f = pre + '_historyadr'
    if getattr(m, n) and want(f) and f in lib.model_fields:
      a = I(f)
      i = _first_bad((a < -1) | (a >= max(int(m.nhistory), 0)) & (a != -1))
      if i is not None:
        add(f, i, a[i], 'history address not in [-1, nhistory=%d)' % m.nhistory)
  if m.nsensor and (want('sensor_objid') or want('sensor_refid') or want('sensor_adr')):
    ot, oi, rt, ri = I('sensor_objtype'), I('sensor_objid'), I('sensor_reftype'), I('sensor_refid')
    ad, dm = I('sensor_adr'), I('sensor_dim')
    for i in range(m.nsensor):
      n = objcount(lib, m, int(ot[i]))
      if n == -2:
        add('sensor_objtype', i, ot[i], 'not an object type')
      elif n is not None and not 0 <= oi[i] < n:
        add('sensor_objid', i, oi[i], 'not in [0, %d)' % n, 'branch:objtype%d' % ot[i])
      n = objcount(lib, m, int(rt[i]))
      if n == -2:
        add('sensor_reftype', i, rt[i], 'not an object type')
      elif n is not None and not -1 <= ri[i] < n:
        add('sensor_refid', i, ri[i], 'not in [-1, %d)' % n, 'branch:reftype%d' % rt[i])
      if ad[i] < 0 or dm[i] < 0 or ad[i] + dm[i] > m.nsensordata:
        add('sensor_adr', i, ad[i], 'sensor output [adr, adr+dim=%d) outside [0, nsensordata=%d)' % (dm[i], m.nsensordata))
      if len(out) >= limit:
        break
  if m.ntuple and want('tuple_objid'):
    ta, ts, ot, oi = I('tuple_adr'), I('tuple_size'), I('tuple_objtype'), I('tuple_objid')
    for i in range(m.ntuple):
      if ts[i] <= 0 or ta[i] < 0 or ta[i] + ts[i] > m.ntupledata:
        continue
      for j in range(ta[i], ta[i] + ts[i]):
        n = objcount(lib, m, int(ot[j]))
        if n == -2:
          add('tuple_objtype', j, ot[j], 'not an object type')
        elif n is not None and not 0 <= oi[j] < n:
          add('tuple_objid', j, oi[j], 'not in [0, %d)' % n, 'branch:objtype%d' % ot[j])
  if m.nmesh and (want('mesh_face') or want('mesh_facetexcoord')):
    va, vn, fa, fn = I('mesh_vertadr'), I('mesh_vertnum'), I('mesh_faceadr'), I('mesh_facenum')
    tn = I('mesh_texcoordnum')
    face = I('mesh_face').reshape(-1, 3)
    ftc = I('mesh_facetexcoord').reshape(-1, 3)
    for i in range(m.nmesh):
      if fn[i] <= 0 or fa[i] < 0 or fa[i] + fn[i] > m.nmeshface:
        continue
      blk = face[fa[i]:fa[i] + fn[i]]
      j = _first_bad((blk < 0) | (blk >= vn[i]))
      if j is not None:
        add('mesh_face', fa[i] * 3 + j, blk.ravel()[j], 'vertex id not in [0, mesh_vertnum=%d)' % vn[i])
        break
      if tn[i] > 0:
        blk = ftc[fa[i]:fa[i] + fn[i]]
        j = _first_bad((blk < 0) | (blk >= tn[i]))
        if j is not None:
          add('mesh_facetexcoord', fa[i] * 3 + j, blk.ravel()[j], 'texcoord id not in [0, mesh_texcoordnum=%d)' % tn[i])
          break
  return out[:limit]
