"""Reference quaternion / rotation algebra in numpy (vectorised over leading axes), written from the textbook
definitions (Hamilton product, w-first layout as documented in MuJoCo: q = (w, x, y, z), v' = q v q*).

Nothing here is transcribed from the engine: rotation matrices come from Rodrigues' formula, the exponential and
logarithm from their definitions.
"""
import numpy as np


def qmul(a, b):
  """Hamilton product, (..., 4) x (..., 4)."""
  a = np.asarray(a, dtype=np.float64)
  b = np.asarray(b, dtype=np.float64)
  aw, av = a[..., :1], a[..., 1:]
  bw, bv = b[..., :1], b[..., 1:]
  w = aw * bw - np.sum(av * bv, axis=-1, keepdims=True)
  v = aw * bv + bw * av + np.cross(av, bv)
  return np.concatenate([w, v], axis=-1)


def qconj(q):
  q = np.asarray(q, dtype=np.float64)
  return np.concatenate([q[..., :1], -q[..., 1:]], axis=-1)


def skew(v):
  v = np.asarray(v, dtype=np.float64)
  z = np.zeros(v.shape[:-1])
  return np.stack([np.stack([z, -v[..., 2], v[..., 1]], -1),
                   np.stack([v[..., 2], z, -v[..., 0]], -1),
                   np.stack([-v[..., 1], v[..., 0], z], -1)], -2)


def rodrigues(axis, angle):
  """Rotation matrix for a unit axis and an angle: R = I + sin(a) K + (1 - cos(a)) K^2."""
  K = skew(axis)
  a = np.asarray(angle, dtype=np.float64)[..., None, None]
  # 1 - cos(a) = 2 sin^2(a/2) avoids cancellation for small angles
  return np.eye(3) + np.sin(a) * K + 2 * np.sin(a / 2) ** 2 * (K @ K)


def rotmat(q):
  """Rotation matrix of a *unit* quaternion through its action on the basis vectors: columns are q e_i q*."""
  q = np.asarray(q, dtype=np.float64)
  cols = []
  for i in range(3):
    e = np.zeros(q.shape[:-1] + (4,))
    e[..., i + 1] = 1
    cols.append(qmul(qmul(q, e), qconj(q))[..., 1:])
  return np.stack(cols, axis=-1)


def qexp(v):
  """Unit quaternion of the rotation vector v: (cos(|v|/2), sin(|v|/2) v/|v|)."""
  v = np.asarray(v, dtype=np.float64)
  n = np.linalg.norm(v, axis=-1, keepdims=True)
  half = n / 2
  # sin(half)/n with the limit 1/2
  with np.errstate(invalid='ignore', divide='ignore'):
    s = np.where(n > 1e-8, np.sin(half) / np.where(n == 0, 1, n), 0.5 - n * n / 48)
  return np.concatenate([np.cos(half), s * v], axis=-1)


def qlog(q):
  """Rotation vector in the ball |v| <= pi of a unit quaternion (principal value; q and -q give the same rotation)."""
  q = np.asarray(q, dtype=np.float64)
  q = np.where(q[..., :1] < 0, -q, q)
  w, v = q[..., :1], q[..., 1:]
  n = np.linalg.norm(v, axis=-1, keepdims=True)
  ang = 2 * np.arctan2(n, w)
  with np.errstate(invalid='ignore', divide='ignore'):
    k = np.where(n > 1e-8, ang / np.where(n == 0, 1, n), 2 / np.where(w == 0, 1, w) * (1 - n * n / (3 * w * w)))
  return k * v


def same_rotation(qa, qb):
  """min(|qa - qb|, |qa + qb|) per quaternion (max-norm)."""
  qa = np.asarray(qa, dtype=np.float64)
  qb = np.asarray(qb, dtype=np.float64)
  return np.minimum(np.max(np.abs(qa - qb), axis=-1), np.max(np.abs(qa + qb), axis=-1))


def elem_rot(axis_index, angle):
  """Elementary rotation matrix about coordinate axis 0/1/2."""
  c, s = np.cos(angle), np.sin(angle)
  if axis_index == 0:
    return np.array([[1, 0, 0], [0, c, -s], [0, s, c]])
  if axis_index == 1:
    return np.array([[c, 0, s], [0, 1, 0], [-s, 0, c]])
  return np.array([[c, -s, 0], [s, c, 0], [0, 0, 1]])
