"""Reference model of the documented sensor laws (C28).  numpy only.

Written from doc/XMLreference.rst (<sensor> section), doc/modeling.rst (CSensor: cutoff, nsample/delay/interval),
doc/APIreference (mj_rnePostConstraint, mj_objectAcceleration, mj_contactForce) and the comments of mjtSensor /
mjtDataType / mjtConDataField / mjtRayDataField in include/mujoco/mjtype.h.  Nothing is transcribed from
engine_sensor.c.

What is trusted (engine quantities that other properties verify), and what is recomputed here:
  trusted   : positions/orientations of frames (xpos/xmat/xipos/ximat/geom_x*/site_x*/cam_x*: C07), point Jacobians
              mj_jac (C07), the engine's own qacc, contacts and mj_contactForce (C11/C13), efc_* rows (C10/C11),
              ten_length/ten_velocity/actuator_* (C27), the inertia matrix mj_fullM (C06).
  recomputed: WHICH quantity a sensor reports, of WHICH object, expressed in WHICH frame, relative to WHICH reference
              (including the reference frame's own motion), rigid-body velocity/acceleration transport, accelerations by
              central finite differences of J(q) qvel along the flow (+ J qacc), subtree mass properties and momenta,
              Newton-Euler free-body balance of the subtree for force/torque, the touch zone test, ray casting and
              distances through vf.oracle.geomref, the pinhole projection, contact-sensor matching/reduction/extraction,
              limit distances from qpos/ranges, energies, cutoff clamping by datatype.

Conventions that the documentation leaves implicit and that are fixed here (listed in the check's assumptions):
  * accelerations reported by accelerometer / framelinacc are 'proper' accelerations a - g ("including gravity");
  * force/torque: the reading is the wrench exerted ON the child body BY its parent (a static child of mass m under
    gravity -g z reads +m g z), expressed in the site frame with the torque taken about the site origin;
  * joint-space forces (actuators, passive, limits, tendons) are not "external Cartesian forces": only gravity,
    xfrc_applied, contacts are (active connect/weld: isolation only);
  * touch: the 're-projection' ray starts at the contact point and runs along the contact normal out of the sensor
    body (towards the other body); contacts between two geoms of the sensor body are bracketed;
  * tendonactuatorfrc sums scalar actuator forces (gear not applied);
  * quaternion outputs are compared as rotations.
"""
import math

import numpy as np

from . import geomref

EPS = 2.220446049250313e-16
# relative tolerance of the finite-difference based laws (accelerations, force, torque); see World.kin(): truncation and
# round-off of the central difference are both ~2e-11 relative; worst error observed on the unchanged tree over
# 3 x 12000 thorough models: 1.7e-9 -> ~100x
FD_TOL = 2e-7

# documented datatype per element (mjtDataType): used for the cutoff law
AXIS_KINDS = ('framexaxis', 'frameyaxis', 'framezaxis', 'normal')
QUAT_KINDS = ('ballquat', 'framequat')
POSITIVE_KINDS = ('touch', 'insidesite')

RAY_SIZE = dict(dist=1, dir=3, origin=3, point=3, normal=3, depth=1)
CON_SIZE = dict(found=1, force=3, torque=3, dist=1, pos=3, normal=3, tangent=3)


def cross(a, b):
  return np.array([a[1] * b[2] - a[2] * b[1], a[2] * b[0] - a[0] * b[2], a[0] * b[1] - a[1] * b[0]])


def quat2mat(q):
  w, x, y, z = q
  return np.array([[1 - 2 * (y * y + z * z), 2 * (x * y - w * z), 2 * (x * z + w * y)],
                   [2 * (x * y + w * z), 1 - 2 * (x * x + z * z), 2 * (y * z - w * x)],
                   [2 * (x * z - w * y), 2 * (y * z + w * x), 1 - 2 * (x * x + y * y)]])


def apply_cutoff(value, cutoff, datatype):
  """CSensor: 'when positive, limits the absolute value of the sensor output'; mjtDataType: positive-typed data are
  clamped from above only; axis / quaternion data are never clamped (mjmodel.h: 'cutoff for real and positive')."""
  v = np.array(value, dtype=float)
  if cutoff <= 0:
    return v
  if datatype == 'real':
    return np.clip(v, -cutoff, cutoff)
  if datatype == 'positive':
    return np.minimum(v, cutoff)
  return v


# --------------------------------------------------------------------------- inside / line tests for site volumes

def inside_volume(typ, size, p):
  """Is local point p inside a site volume of the documented geometry. Returns (inside, margin) where margin is a
  signed slack (positive inside) used to skip boundary-fragile cases."""
  p = np.asarray(p, dtype=float)
  if typ == 'sphere':
    s = size[0] - np.linalg.norm(p)
  elif typ == 'capsule':
    q = p.copy()
    q[2] -= min(max(p[2], -size[1]), size[1])
    s = size[0] - np.linalg.norm(q)
  elif typ == 'ellipsoid':
    s = (1.0 - math.sqrt(float(np.sum((p / size[:3]) ** 2)))) * float(np.min(size[:3]))
  elif typ == 'cylinder':
    s = min(size[0] - math.hypot(p[0], p[1]), size[1] - abs(p[2]))
  elif typ == 'box':
    s = float(np.min(size[:3] - np.abs(p)))
  else:
    raise ValueError(typ)
  return s >= 0, float(s)


def line_hits_volume(typ, size, o, v, half=False):
  """Does the line o + t v (t real; t >= 0 if half) meet the closed volume.  Returns (hit, margin) with margin>=0 a
  slack; small |margin| = fragile."""
  v = np.asarray(v, dtype=float)
  v = v / np.linalg.norm(v)
  o = np.asarray(o, dtype=float)
  # sample-free exact tests through the smallest value of the 'outside-ness' function along the line
  lo, hi = (0.0, math.inf) if half else (-math.inf, math.inf)

  def clampt(t):
    return min(max(t, lo), hi)

  if typ == 'sphere':
    t = clampt(-(o @ v))
    s = size[0] - np.linalg.norm(o + t * v)
    return s >= 0, float(s)
  if typ == 'ellipsoid':
    e = size[:3]
    o2, v2 = o / e, v / e
    t = clampt(-(o2 @ v2) / (v2 @ v2))
    s = (1.0 - np.linalg.norm(o2 + t * v2)) * float(np.min(e))
    return s >= 0, float(s)
  if typ == 'box':
    t0, t1 = lo, hi
    slack = math.inf
    for i in range(3):
      if abs(v[i]) < 1e-300:
        sl = size[i] - abs(o[i])
        slack = min(slack, sl)
        if sl < 0:
          return False, float(sl)
      else:
        a = (-size[i] - o[i]) / v[i]
        b = (size[i] - o[i]) / v[i]
        t0, t1 = max(t0, min(a, b)), min(t1, max(a, b))
    s = min(t1 - t0, slack)
    return s >= 0, float(s)
  # capsule / cylinder: minimise numerically a convex function of t (signed distance is convex along a line)
  f = (lambda t: -inside_volume(typ, size, o + t * v)[1])
  a = lo if lo > -math.inf else -(np.linalg.norm(o) + 10.0)
  b = hi if hi < math.inf else (np.linalg.norm(o) + 10.0)
  gr = (math.sqrt(5) - 1) / 2
  c, d = b - gr * (b - a), a + gr * (b - a)
  fc, fd = f(c), f(d)
  for _ in range(200):
    if fc < fd:
      b, d, fd = d, c, fc
      c = b - gr * (b - a)
      fc = f(c)
    else:
      a, c, fc = c, d, fd
      d = a + gr * (b - a)
      fd = f(d)
    if b - a < 1e-13:
      break
  s = -min(fc, fd)
  return s >= 0, float(s)


SITE_TYPES = {2: 'sphere', 3: 'capsule', 4: 'ellipsoid', 5: 'cylinder', 6: 'box'}


# --------------------------------------------------------------------------- the world: engine state + kinematics

class World:
  """Engine state after mj_forward plus lazily computed rigid-body kinematics of every body."""

  def __init__(self, lib, m, d, h=None):
    self.lib, self.m, self.d, self.h = lib, m, d, h
    self.E = lib.enums
    self.nbody, self.nv = int(m.nbody), int(m.nv)
    self.qvel = np.array(d.qvel, dtype=float)
    self.qacc = np.array(d.qacc, dtype=float)
    self.parent = np.array(m.body_parentid, dtype=int)
    self.gravity = np.array(m.opt.gravity, dtype=float)
    if int(m.opt.disableflags) & self.E.mjDSBL_GRAVITY:
      self.gravity = np.zeros(3)
    self._kin = None
    self._conf = None
    self.depth = np.zeros(self.nbody, dtype=int)
    for b in range(1, self.nbody):
      self.depth[b] = self.depth[self.parent[b]] + 1

  # ---- frames
  def frame(self, objtype, oid):
    """(pos, R with columns = frame axes in world coordinates, body id) of an object with a spatial frame.
    'body' is the inertial frame, 'xbody' the regular body frame (XMLreference framepos/objtype)."""
    m, d, E = self.m, self.d, self.E
    if objtype == E.mjOBJ_BODY:
      return np.array(d.xipos[oid]), np.array(d.ximat[oid]).reshape(3, 3), oid
    if objtype == E.mjOBJ_XBODY:
      return np.array(d.xpos[oid]), np.array(d.xmat[oid]).reshape(3, 3), oid
    if objtype == E.mjOBJ_GEOM:
      return np.array(d.geom_xpos[oid]), np.array(d.geom_xmat[oid]).reshape(3, 3), int(m.geom_bodyid[oid])
    if objtype == E.mjOBJ_SITE:
      return np.array(d.site_xpos[oid]), np.array(d.site_xmat[oid]).reshape(3, 3), int(m.site_bodyid[oid])
    if objtype == E.mjOBJ_CAMERA:
      return np.array(d.cam_xpos[oid]), np.array(d.cam_xmat[oid]).reshape(3, 3), int(m.cam_bodyid[oid])
    raise ValueError('object type %d has no spatial frame' % objtype)

  def subtree(self, b):
    """Body ids of the kinematic subtree rooted at b."""
    out = []
    for k in range(b, self.nbody):
      a = k
      while a > b:
        a = self.parent[a]
      if a == b:
        out.append(k)
    return out

  # ---- rigid-body kinematics of all bodies
  def _body_vel(self, dd):
    lib, m = self.lib, self.m
    W = np.zeros((self.nbody, 3))
    V = np.zeros((self.nbody, 3))
    if self.nv == 0:
      return V, W
    jp = np.zeros((3, self.nv))
    jr = np.zeros((3, self.nv))
    for b in range(1, self.nbody):
      lib.mj_jac(m, dd, jp, jr, np.array(dd.xpos[b]), b)
      V[b] = jp @ self.qvel
      W[b] = jr @ self.qvel
    return V, W

  def kin(self):
    """dict(X, V, W, A, AL): origin position, origin velocity, angular velocity, origin acceleration (kinematic, no
    gravity), angular acceleration of every body.  Accelerations: d/dt [J(q) qvel] = J qacc + (d/dt J) qvel with the
    second term by a central difference of J(q) qvel along q (+)/(-) h*qvel (error O(h^2) + eps/h)."""
    if self._kin is not None:
      return self._kin
    lib, m, d = self.lib, self.m, self.d
    X = np.array(d.xpos, dtype=float)
    V, W = self._body_vel(d)
    # step of the central difference: the relative truncation error is (h w)^2 / 6 with w the largest angular velocity
    # of a body (deep chains add up joint rates), the relative round-off eps / (h w): h w <= 1e-5 keeps both near 2e-11
    h = self.h = 1e-5 / (1.0 + float(np.max(np.linalg.norm(W, axis=1))))
    A = np.zeros_like(V)
    AL = np.zeros_like(W)
    if self.nv:
      jp = np.zeros((3, self.nv))
      jr = np.zeros((3, self.nv))
      for b in range(1, self.nbody):
        lib.mj_jac(m, d, jp, jr, np.array(d.xpos[b]), b)
        A[b] = jp @ self.qacc
        AL[b] = jr @ self.qacc
      ds = lib.make_data(m)
      out = []
      for sgn in (1.0, -1.0):
        q = np.array(d.qpos, dtype=float)
        lib.mj_integratePos(m, q, self.qvel, sgn * h)
        ds.qpos[:] = q
        if m.nmocap:
          ds.mocap_pos[:] = d.mocap_pos
          ds.mocap_quat[:] = d.mocap_quat
        lib.mj_kinematics(m, ds)
        lib.mj_comPos(m, ds)
        out.append(self._body_vel(ds))
      A += (out[0][0] - out[1][0]) / (2 * h)
      AL += (out[0][1] - out[1][1]) / (2 * h)
    self._kin = dict(X=X, V=V, W=W, A=A, AL=AL)
    return self._kin

  def point_vel(self, body, p):
    """(linear velocity of the material point p of body, angular velocity of body), world coordinates."""
    k = self.kin()
    r = p - k['X'][body]
    return k['V'][body] + cross(k['W'][body], r), k['W'][body].copy()

  def point_acc(self, body, p):
    """(linear acceleration of the material point p, angular acceleration), kinematic (no gravity term)."""
    k = self.kin()
    r = p - k['X'][body]
    w = k['W'][body]
    return k['A'][body] + cross(k['AL'][body], r) + cross(w, cross(w, r)), k['AL'][body].copy()

  def acc_scale(self, body, p):
    k = self.kin()
    r = np.linalg.norm(p - k['X'][body])
    w = np.linalg.norm(k['W'][body])
    wmax = float(np.max(np.linalg.norm(k['W'], axis=1)))      # joint rates up the chain enter d/dt(J) qvel
    return (np.linalg.norm(k['A'][body]) + np.linalg.norm(k['AL'][body]) * (1 + r) + w * w * (1 + r)
            + np.linalg.norm(self.gravity) + (np.linalg.norm(k['V'][body]) + w * r + wmax) * (1 + wmax))

  # ---- contacts
  def contacts(self):
    """List of dict(pos, frame (rows: normal, t1, t2), dist, geom (g1,g2), body (b1,b2), wrench6 in contact frame,
    active) for every contact of mjData.contact."""
    if self._conf is not None:
      return self._conf
    lib, m, d = self.lib, self.m, self.d
    out = []
    ncon = int(d.ncon)
    con = d.contact
    f6 = np.zeros(6)
    for j in range(ncon):
      g = [int(x) for x in con['geom'][j]]
      f6[:] = 0
      lib.mj_contactForce(m, d, j, f6)
      out.append(dict(pos=np.array(con['pos'][j]), frame=np.array(con['frame'][j]).reshape(3, 3),
                      dist=float(con['dist'][j]), geom=g, body=[int(m.geom_bodyid[x]) if x >= 0 else -1 for x in g],
                      wrench=f6.copy(), active=int(con['efc_address'][j]) >= 0))
    self._conf = out
    return out


# --------------------------------------------------------------------------- individual laws

class Result:
  """Expected reading.  mode: 'exact' (bit-equal), 'tol' (|got-want| <= tol), 'bounds' (lo <= got <= hi),
  'rot' (quaternion up to sign / rotation equality), 'custom' (callable check(got) -> (ok, msg)), 'none'."""

  def __init__(self, mode, want=None, tol=0.0, lo=None, hi=None, check=None, level='oracle', note='', cls='pos'):
    self.mode, self.want, self.tol, self.lo, self.hi = mode, want, tol, lo, hi
    self.check, self.level, self.note, self.cls = check, level, note, cls


def _limit_rows(w, ctype, oid):
  d = w.d
  nefc = int(d.nefc)
  if not nefc:
    return []
  t = np.array(d.efc_type[:nefc])
  i = np.array(d.efc_id[:nefc])
  return [int(r) for r in np.flatnonzero((t == ctype) & (i == oid))]


def joint_limit(w, j):
  """Documented: output = efc_pos - efc_margin of the joint's limit constraint, 0 if the limit is not violated
  (violated = distance to the limit smaller than the margin).  Distance recomputed from qpos and jnt_range.
  Returns dict(active, value, side, both) ; side = +1 lower / -1 upper (sign of d(dist)/dq)."""
  m, d, E = w.m, w.d, w.E
  dis = int(m.opt.disableflags)
  if (dis & E.mjDSBL_LIMIT) or (dis & E.mjDSBL_CONSTRAINT) or not int(m.jnt_limited[j]):
    return dict(active=False, value=0.0, both=False, side=0, fragile=False)
  t = int(m.jnt_type[j])
  lo, hi = float(m.jnt_range[j][0]), float(m.jnt_range[j][1])
  mar = float(m.jnt_margin[j])
  a = int(m.jnt_qposadr[j])
  if t in (E.mjJNT_SLIDE, E.mjJNT_HINGE):
    q = float(d.qpos[a])
    dl, du = q - lo, hi - q
    al, au = dl < mar, du < mar
    fragile = min(abs(dl - mar), abs(du - mar)) < 1e-12
    if al and au:
      return dict(active=True, value=dl - mar, both=True, side=1, fragile=fragile)
    if al:
      return dict(active=True, value=dl - mar, both=False, side=1, fragile=fragile)
    if au:
      return dict(active=True, value=du - mar, both=False, side=-1, fragile=fragile)
    return dict(active=False, value=0.0, both=False, side=0, fragile=fragile)
  if t == E.mjJNT_BALL:
    q = np.array(d.qpos[a:a + 4], dtype=float)
    q = q / np.linalg.norm(q)
    ang = 2.0 * math.atan2(np.linalg.norm(q[1:]), abs(q[0]))
    dist = max(lo, hi) - ang
    axis = q[1:] * (1.0 if q[0] >= 0 else -1.0)
    n = np.linalg.norm(axis)
    axis = axis / n if n > 0 else np.zeros(3)
    return dict(active=dist < mar, value=(dist - mar) if dist < mar else 0.0, both=False, side=0, axis=axis,
                fragile=abs(dist - mar) < 1e-12 or n < 1e-9)
  return dict(active=False, value=0.0, both=False, side=0, fragile=False)


def tendon_limit(w, t):
  m, d, E = w.m, w.d, w.E
  dis = int(m.opt.disableflags)
  if (dis & E.mjDSBL_LIMIT) or (dis & E.mjDSBL_CONSTRAINT) or not int(m.tendon_limited[t]):
    return dict(active=False, value=0.0, both=False, side=0, fragile=False)
  lo, hi = float(m.tendon_range[t][0]), float(m.tendon_range[t][1])
  mar = float(m.tendon_margin[t])
  L = float(d.ten_length[t])
  dl, du = L - lo, hi - L
  al, au = dl < mar, du < mar
  fragile = min(abs(dl - mar), abs(du - mar)) < 1e-12
  if al and au:
    return dict(active=True, value=dl - mar, both=True, side=1, fragile=fragile)
  if al:
    return dict(active=True, value=dl - mar, both=False, side=1, fragile=fragile)
  if au:
    return dict(active=True, value=du - mar, both=False, side=-1, fragile=fragile)
  return dict(active=False, value=0.0, both=False, side=0, fragile=fragile)


def subtree_props(w, b):
  """(mass, com, linear velocity of com, angular momentum about com) of the subtree rooted at b from body masses,
  inertial-frame positions, body inertias and rigid-body velocities."""
  m, d = w.m, w.d
  k = w.kin()
  ids = w.subtree(b)
  M = 0.0
  c = np.zeros(3)
  for i in ids:
    M += float(m.body_mass[i])
    c += float(m.body_mass[i]) * np.array(d.xipos[i])
  if M <= 0:
    return 0.0, None, None, None, 0.0
  c /= M
  p = np.zeros(3)
  L = np.zeros(3)
  scale = 0.0
  vs = []
  for i in ids:
    mi = float(m.body_mass[i])
    xi = np.array(d.xipos[i])
    vi, wi = w.point_vel(i, xi)
    vs.append((mi, xi, vi, wi, i))
    p += mi * vi
  vc = p / M
  for mi, xi, vi, wi, i in vs:
    R = np.array(d.ximat[i]).reshape(3, 3)
    I = R @ np.diag(np.array(m.body_inertia[i])) @ R.T
    L += I @ wi + mi * cross(xi - c, vi - vc)
    scale += np.linalg.norm(I @ wi) + mi * np.linalg.norm(xi - c) * (np.linalg.norm(vi) + np.linalg.norm(vc))
  return M, c, vc, L, scale


def free_body_wrench(w, b, p):
  """Wrench (force, torque about p; world coordinates) that the parent must exert on body b so that the subtree of
  b has its actual acceleration, given the external Cartesian loads gravity, xfrc_applied and contacts:
      F = sum_k m_k (a_k - g) - sum F_ext ,   T = sum_k [(c_k - p) x m_k (a_k - g) + I_k al_k + w_k x I_k w_k] - T_ext
  Returns (F, T, scale)."""
  m, d = w.m, w.d
  ids = w.subtree(b)
  inS = set(ids)
  F = np.zeros(3)
  T = np.zeros(3)
  sF = sT = 0.0
  g = w.gravity
  for k in ids:
    mk = float(m.body_mass[k])
    ck = np.array(d.xipos[k])
    a, al = w.point_acc(k, ck)
    _, wk = w.point_vel(k, ck)
    R = np.array(d.ximat[k]).reshape(3, 3)
    I = R @ np.diag(np.array(m.body_inertia[k])) @ R.T
    f = mk * (a - g)
    t = I @ al + cross(wk, I @ wk)
    xf = np.array(d.xfrc_applied[k])
    F += f - xf[:3]
    T += cross(ck - p, f - xf[:3]) + t - xf[3:]
    sF += np.linalg.norm(f) + np.linalg.norm(xf[:3]) + mk * np.linalg.norm(g)
    sT += (np.linalg.norm(ck - p) * (np.linalg.norm(f) + np.linalg.norm(xf[:3]) + mk * np.linalg.norm(g))
           + np.linalg.norm(I @ al) + np.linalg.norm(cross(wk, I @ wk)) + np.linalg.norm(xf[3:]))
  for c in w.contacts():
    if not c['active']:
      continue
    b1, b2 = c['body']
    s = (1 if b2 in inS else 0) - (1 if b1 in inS else 0)
    if s == 0:
      continue
    fw = c['frame'].T @ c['wrench'][:3]      # force on geom2's body, world
    tw = c['frame'].T @ c['wrench'][3:]
    F -= s * fw
    T -= s * (cross(c['pos'] - p, fw) + tw)
    sF += np.linalg.norm(fw)
    sT += np.linalg.norm(c['pos'] - p) * np.linalg.norm(fw) + np.linalg.norm(tw)
  return F, T, sF, sT


def spring_potential(w):
  """Sum of 1/2 k x^2 over joint and tendon springs (x = displacement), or None when a spring type is present whose
  displacement the documentation does not define precisely enough (free joints)."""
  m, d, E = w.m, w.d, w.E
  if int(m.opt.disableflags) & E.mjDSBL_SPRING:
    return 0.0
  e = 0.0
  for j in range(int(m.njnt)):
    k = float(m.jnt_stiffness[j])
    if k == 0:
      continue
    t = int(m.jnt_type[j])
    a = int(m.jnt_qposadr[j])
    if t in (E.mjJNT_SLIDE, E.mjJNT_HINGE):
      x = float(d.qpos[a]) - float(m.qpos_spring[a])
      e += 0.5 * k * x * x
    elif t == E.mjJNT_BALL:
      q = np.array(d.qpos[a:a + 4], dtype=float)
      q /= np.linalg.norm(q)
      q0 = np.array(m.qpos_spring[a:a + 4], dtype=float)
      q0 /= np.linalg.norm(q0)
      c = abs(float(q @ q0))
      s = math.sqrt(max(0.0, 1 - c * c))
      ang = 2.0 * math.atan2(s, c)
      e += 0.5 * k * ang * ang
    else:
      return None
  for t in range(int(m.ntendon)):
    k = float(m.tendon_stiffness[t])
    if k == 0:
      continue
    L = float(d.ten_length[t])
    lo, hi = float(m.tendon_lengthspring[t][0]), float(m.tendon_lengthspring[t][1])
    x = L - hi if L > hi else (L - lo if L < lo else 0.0)
    e += 0.5 * k * x * x
  return e


def pinhole_project(w, cam, p):
  """Pixel coordinates of world point p in camera cam: pinhole with vertical field of view fovy, image W x H, pixel
  origin top-left, camera looking down its -z axis with +x right and +y up (camprojection / body-camera docs)."""
  m, d = w.m, w.d
  W, H = int(m.cam_resolution[cam][0]), int(m.cam_resolution[cam][1])
  f = 0.5 * H / math.tan(math.radians(float(m.cam_fovy[cam])) / 2)
  R = np.array(d.cam_xmat[cam]).reshape(3, 3)
  pc = R.T @ (p - np.array(d.cam_xpos[cam]))
  depth = -pc[2]
  if depth == 0:
    return np.zeros(2), 0.0, f
  return np.array([W / 2 + f * pc[0] / depth, H / 2 - f * pc[1] / depth]), depth, f


def ray_nearest(w, origin, direction, bodyexclude):
  """Nearest surface along the ray over all geoms that are not attached to bodyexclude and not invisible (alpha=0).
  Returns (dist or -1, normal, fragile, second-best gap)."""
  m, d = w.m, w.d
  best = None
  fragile = False
  for g in range(int(m.ngeom)):
    if int(m.geom_bodyid[g]) == bodyexclude:
      continue
    if int(m.geom_matid[g]) >= 0:
      alpha = float(m.mat_rgba[int(m.geom_matid[g])][3])
    else:
      alpha = float(m.geom_rgba[g][3])
    if alpha == 0:
      continue
    t = int(m.geom_type[g])
    if geomref.TYPES[t] in ('hfield', 'mesh') or t >= len(geomref.TYPES):
      return None
    sh = geomref.shape_from_model(m, d, g)
    r = geomref.ray_shape(sh, origin, direction, tangent_tol=1e-6)
    if r is None:
      continue
    if r.get('fragile'):
      fragile = True
    if r.get('x') is None:
      continue
    if best is None or r['x'] < best[0]:
      best = (r['x'], r['normal'], g)
  if best is None:
    return -1.0, np.zeros(3), fragile, None
  return best[0], best[1], fragile, best[2]


# --------------------------------------------------------------------------- per-sensor expectation

def _names(E):
  return {getattr(E, k): k[7:].lower() for k in E._vals if k.startswith('mjSENS_')}


def datatype_of(kind):
  """Documented numeric data type of an element (XMLreference + mjtDataType)."""
  if kind in AXIS_KINDS:
    return 'axis'
  if kind in QUAT_KINDS:
    return 'quaternion'
  if kind in POSITIVE_KINDS:
    return 'positive'
  return 'real'


def _rel_frame(w, i):
  m = w.m
  ot, oid = int(m.sensor_objtype[i]), int(m.sensor_objid[i])
  rt, rid = int(m.sensor_reftype[i]), int(m.sensor_refid[i])
  p, R, b = w.frame(ot, oid)
  if rid < 0:
    return p, R, b, None
  pr, Rr, br = w.frame(rt, rid)
  return p, R, b, (pr, Rr, br)


def _geoms_of(w, objtype, oid):
  m, E = w.m, w.E
  if objtype == E.mjOBJ_BODY:
    a, n = int(m.body_geomadr[oid]), int(m.body_geomnum[oid])
    return list(range(a, a + n)) if n > 0 else []
  return [oid]


def pair_true_distance(w, g1, g2):
  """(signed distance, kind) from the closed forms of geomref, or None."""
  m, d = w.m, w.d
  a = geomref.shape_from_model(m, d, g1)
  b = geomref.shape_from_model(m, d, g2)
  if geomref.TYPES.index(a.typ) > geomref.TYPES.index(b.typ):
    a, b = b, a
  r = geomref.pair_distance(a, b)
  if r is None:
    return None
  dist, kind = r
  if kind != 'exact' and not dist > 0:
    return None
  return float(dist)


def _gap_along(s1, s2, n):
  """min_{b in geom2} n.b - max_{a in geom1} n.a : the separation of the two convex shapes along the unit direction n.
  For every n this is a lower bound of the true distance, with equality for the direction of the shortest segment."""
  if s1.typ == 'plane':
    nz = s1.mat[:, 2]
    if np.linalg.norm(n - nz) > 1e-6:
      return -math.inf
    return -geomref.hsup(s2, -n) - float(n @ s1.pos)
  if s2.typ == 'plane':
    nz = s2.mat[:, 2]
    if np.linalg.norm(n + nz) > 1e-6:
      return -math.inf
    return float(n @ s2.pos) - geomref.hsup(s1, n)
  return -geomref.hsup(s2, -n) - geomref.hsup(s1, n)


def collision_expect(w, i, kind):
  """distance / normal / fromto (collision-sensors section).  cutoff = maximum detection distance; distance returns
  cutoff when nothing is detected; body1/body2 select the pair with the smallest signed distance.
  Reference distance of a pair: closed form (geomref.pair_distance) when there is one; otherwise, for separated pairs,
  the engine's own mj_geomDistance witness segment is CERTIFIED (end points on the two surfaces => upper bound;
  separation along the segment direction by support functions => lower bound); penetrating pairs without a closed form
  are cross-checked against mj_geomDistance only."""
  m, d, lib = w.m, w.d, w.lib
  cutoff = float(m.sensor_cutoff[i])
  G1 = _geoms_of(w, int(m.sensor_objtype[i]), int(m.sensor_objid[i]))
  G2 = _geoms_of(w, int(m.sensor_reftype[i]), int(m.sensor_refid[i]))
  tol_geo = 1e-5     # convex-collision (CCD) tolerance of the narrow phase: opt.ccd_tolerance = 1e-6 by default
  pairs = []
  level = 'oracle'
  ft = np.zeros(6)
  for g1 in G1:
    for g2 in G2:
      if g1 != g2 and np.linalg.norm(np.array(d.geom_xpos[g1]) - np.array(d.geom_xpos[g2])) < 1e-6:
        # coincident centres: class of the known finding C28:ccd-concentric (handled by its own probe)
        return Result('none', level='isolation', note='concentric-geoms')
      td = pair_true_distance(w, g1, g2) if g1 != g2 else None
      src = 'closed'
      if td is None:
        ft[:] = 0
        td = float(lib.mj_geomDistance(m, d, g1, g2, max(cutoff, 0.0) + 1.0, ft))
        src = 'engine'
        if 100 * tol_geo < td < max(cutoff, 0.0) + 1.0 - 1e-9:
          s1 = geomref.shape_from_model(m, d, g1)
          s2 = geomref.shape_from_model(m, d, g2)
          seg = ft[3:] - ft[:3]
          ln = float(np.linalg.norm(seg))
          sc = 1 + td
          if (ln > 0 and abs(geomref.sdf(s1, ft[:3])) <= 10 * tol_geo * sc and abs(geomref.sdf(s2, ft[3:])) <= 10 * tol_geo * sc
              and abs(ln - td) <= 10 * tol_geo * sc and _gap_along(s1, s2, seg / ln) >= td - 10 * tol_geo * sc):
            src = 'certified'
        if src == 'engine' and level == 'oracle':
          level = 'crosscheck'
      pairs.append((td, g1, g2, src))
  if not pairs:
    best = None
  else:
    pairs.sort(key=lambda t: t[0])
    best = pairs[0]
  detected = best is not None and best[0] < cutoff
  fragile = best is not None and abs(best[0] - cutoff) < 10 * tol_geo
  if len(pairs) > 1 and abs(pairs[1][0] - pairs[0][0]) < 10 * tol_geo and pairs[0][0] < cutoff + 10 * tol_geo:
    fragile = True
  dist = best[0] if detected else cutoff
  # accuracy of the engine's narrow phase is C15's subject; here the comparison is tight (1e-5) only where the engine is
  # accurate by construction - separated pairs with a closed form -, and loose (1e-3) for penetrating pairs (EPA depth on
  # curved shapes: 1.6e-5 observed on a sphere-ellipsoid pair 0.05 deep) and for pairs without a closed form (reference
  # = the engine's own solver called with another distmax, which moves its iterative result by ~1e-5)
  tol_cmp = tol_geo if (best is None or (best[3] == 'closed' and best[0] > 0)) else 100 * tol_geo
  if kind != 'distance' and detected and abs(best[0]) < 100 * tol_geo:
    fragile = True        # touching: the direction of the (zero-length) shortest segment is undefined
  note = 'fragile' if fragile else ('detected:' + best[3] if detected else 'undetected')

  if kind == 'distance':
    want = np.array([dist])
    if cutoff > 0:
      want = np.clip(want, -cutoff, cutoff)
    return Result('tol' if not fragile else 'none', want=want, tol=tol_cmp * (1 + abs(dist)), level=level, cls='geom',
                  note=note)

  def check(got):
    if fragile:
      return True, 'fragile'
    got = np.asarray(got)
    if not detected:
      if np.any(got != 0):
        return False, 'no collision within cutoff=%g (true distance %r) but output %r is not zero' % (
            cutoff, best[0] if best else None, got.tolist())
      return True, ''
    g1, g2 = best[1], best[2]
    s1 = geomref.shape_from_model(m, d, g1)
    s2 = geomref.shape_from_model(m, d, g2)
    sc = 1 + abs(dist)
    if kind == 'fromto':
      fr, to = got[:3], got[3:]
      e1 = abs(geomref.sdf(s1, fr))
      e2 = abs(geomref.sdf(s2, to))
      sep = float(np.linalg.norm(to - fr))
      # surface membership is asserted for separated pairs only: for penetrating pairs the witness points of the
      # narrow phase are not unique (arbitrary direction for concentric shapes - e.g. a sphere centred on a capsule
      # axis gets a witness inside the capsule -, EPA tolerance); that is C13/C15 territory
      if dist > 0 and (e1 > tol_geo * 10 * sc or e2 > tol_geo * 10 * sc):
        return False, 'fromto end points not on the surfaces of geom1/geom2: sdf1(from)=%g sdf2(to)=%g' % (e1, e2)
      if abs(sep - abs(dist)) > tol_cmp * 10 * sc:
        return False, '|to-from|=%.12g but |signed distance|=%.12g' % (sep, abs(dist))
      return True, ''
    # normal: unit vector from the surface of geom1 to the surface of geom2
    n = got
    if abs(np.linalg.norm(n) - 1) > 1e-9:
      return False, 'normal of a detected collision is not a unit vector: %r' % n.tolist()
    if dist > 100 * tol_geo and best[3] in ('closed', 'certified'):
      # (for an engine-sourced distance whose witness segment could not be certified - e.g. the analytic capsule-box
      # collider reports a positive distance when the capsule axis pierces the box - only the unit norm is judged)
      gap = _gap_along(s1, s2, n)
      if gap < dist - 10 * tol_geo * sc:
        return False, ('separation of the two geoms along the reported normal is %.12g but their distance is %.12g: '
                       'the normal is not the direction of the shortest segment from geom1 to geom2' % (gap, dist))
    return True, ''

  return Result('custom', check=check, level=level, cls='geom', note=note)


def _crit_match(w, crit, geom, body):
  if crit is None:
    return True
  k, oid = crit
  if k == 'geom':
    return geom == oid
  if k == 'body':
    return body == oid
  if k == 'subtree':
    a = body
    while a > oid:
      a = int(w.parent[a])
    return a == oid
  raise ValueError(k)


def contact_expect(w, i, attrs):
  """contact sensor: matching -> reduction -> extraction, from the XML attributes of the sensor."""
  m, d, lib, E = w.m, w.d, w.lib, w.E
  fields = (attrs.get('data') or 'found').split()
  num = int(attrs.get('num', 1))
  reduce = attrs.get('reduce', 'none')
  size = sum(CON_SIZE[f] for f in fields)

  def oid(objtype, name):
    r = lib.mj_name2id(m, objtype, name)
    if r < 0:
      raise ValueError('name %s' % name)
    return int(r)

  crit1 = crit2 = None
  site = None
  for key in ('geom1', 'body1', 'subtree1'):
    if key in attrs:
      crit1 = (key[:-1], oid(E.mjOBJ_GEOM if key[0] == 'g' else E.mjOBJ_BODY, attrs[key]))
  for key in ('geom2', 'body2', 'subtree2'):
    if key in attrs:
      crit2 = (key[:-1], oid(E.mjOBJ_GEOM if key[0] == 'g' else E.mjOBJ_BODY, attrs[key]))
  if 'site' in attrs:
    site = oid(E.mjOBJ_SITE, attrs['site'])
  fragile = False
  matched = []
  for j, c in enumerate(w.contacts()):
    (g1, g2), (b1, b2) = c['geom'], c['body']
    if site is not None:
      ps, Rs, _ = w.frame(E.mjOBJ_SITE, site)
      ins, s = inside_volume(SITE_TYPES[int(m.site_type[site])], np.array(m.site_size[site]), Rs.T @ (c['pos'] - ps))
      if abs(s) < 1e-9:
        fragile = True
      if not ins:
        continue
    if crit1 is None and crit2 is None:
      matched.append((j, 1))
      continue
    m11, m12 = _crit_match(w, crit1, g1, b1), _crit_match(w, crit1, g2, b2)
    m21, m22 = _crit_match(w, crit2, g1, b1), _crit_match(w, crit2, g2, b2)
    if crit1 is not None and crit2 is not None:
      reg, rev = m11 and m22, m12 and m21
      if not reg and not rev:
        continue
      matched.append((j, 1 if reg else -1))
    elif crit1 is not None:
      if not (m11 or m12):
        continue
      matched.append((j, 1 if m11 else -1))       # normal points away from the first object
    else:
      if not (m21 or m22):
        continue
      matched.append((j, 1 if m22 else -1))       # normal points towards the second object
  nmatch = len(matched)
  cons = w.contacts()
  out = np.zeros(num * size)
  unchecked = np.zeros(num * size, dtype=bool)
  scale = 1.0

  def put(slot, vals):
    o = slot * size
    for f in fields:
      n = CON_SIZE[f]
      v = vals.get(f)
      if v is None:
        unchecked[o:o + n] = True
      else:
        out[o:o + n] = v
      o += n

  if reduce == 'netforce':
    if nmatch:
      Fw, Tw, P, wsum = np.zeros(3), np.zeros(3), np.zeros(3), 0.0
      items = []
      for j, s in matched:
        c = cons[j]
        f = s * (c['frame'].T @ c['wrench'][:3])
        t = s * (c['frame'].T @ c['wrench'][3:])
        wt = float(np.linalg.norm(c['wrench'][:3]))
        items.append((f, t, c['pos']))
        P += wt * c['pos']
        wsum += wt
      if wsum < 1e-12:
        fragile = True
        wsum = max(wsum, 1e-300)
      P = P / wsum
      for f, t, pos in items:
        Fw += f
        Tw += t + cross(pos - P, f)
        scale += np.linalg.norm(f) * (1 + np.linalg.norm(pos - P)) + np.linalg.norm(t)
      put(0, dict(found=nmatch, force=Fw, torque=Tw, dist=None, pos=P, normal=[1, 0, 0], tangent=[0, 1, 0]))
      scale += float(np.linalg.norm(P))
    else:
      # documentation: empty slots are identically zero.  (normal/tangent of an empty netforce slot: see report)
      put(0, dict(found=0, force=np.zeros(3), torque=np.zeros(3), dist=0.0, pos=np.zeros(3), normal=None, tangent=None))
    # remaining slots (num > 1): identically zero
    return Result('tol' if not fragile else 'none', want=out, tol=1e-9 * scale, level='oracle', cls='contact',
                  note='fragile' if fragile else ('unchecked' if unchecked.any() else '')), unchecked, nmatch
  order = list(matched)
  if reduce == 'mindist':
    keys = [cons[j]['dist'] for j, _ in order]
    idx = sorted(range(len(order)), key=lambda k: keys[k])
    for a, b in zip(idx, idx[1:]):
      if keys[a] == keys[b]:
        fragile = True          # ties: order not documented
    order = [order[k] for k in idx]
  elif reduce == 'maxforce':
    keys = [float(np.linalg.norm(cons[j]['wrench'][:3])) for j, _ in order]
    idx = sorted(range(len(order)), key=lambda k: -keys[k])
    for a, b in zip(idx, idx[1:]):
      if abs(keys[a] - keys[b]) <= 1e-12 * (abs(keys[a]) + abs(keys[b])):
        fragile = True
    order = [order[k] for k in idx]
  for slot, (j, s) in enumerate(order[:num]):
    c = cons[j]
    f = c['wrench'][:3].copy()
    t = c['wrench'][3:].copy()
    f[2] *= s          # components in the (possibly reversed) right-handed frame [s n, s t1, t2] of the force
    t[2] *= s          # acting on the second object
    put(slot, dict(found=nmatch, force=f, torque=t, dist=c['dist'], pos=c['pos'], normal=s * c['frame'][0],
                   tangent=s * c['frame'][1]))
    scale = max(scale, float(np.linalg.norm(c['wrench'])))
  return Result('tol' if not fragile else 'none', want=out, tol=1e-12 * scale, level='oracle', cls='contact',
                note='fragile' if fragile else ''), unchecked, nmatch


def rangefinder_expect(w, i, attrs):
  m, d, E = w.m, w.d, w.E
  fields = (attrs.get('data') or 'dist').split()
  size = sum(RAY_SIZE[f] for f in fields)
  ot, oid = int(m.sensor_objtype[i]), int(m.sensor_objid[i])
  dim = int(m.sensor_dim[i])
  rays = []
  if ot == E.mjOBJ_SITE:
    p, R, b = w.frame(ot, oid)
    rays.append((p, R[:, 2].copy(), None))
    bodyex = b
    level = 'oracle'
  else:
    p, R, b = w.frame(ot, oid)
    W, H = int(m.cam_resolution[oid][0]), int(m.cam_resolution[oid][1])
    bodyex = b
    if int(m.cam_projection[oid]) != E.mjPROJ_PERSPECTIVE:
      return Result('none', level='isolation', note='orthographic-camera'), None
    f = 0.5 * H / math.tan(math.radians(float(m.cam_fovy[oid])) / 2)
    for row in range(H):
      for col in range(W):
        dc = np.array([(col + 0.5 - W / 2) / f, -(row + 0.5 - H / 2) / f, -1.0])
        dc /= np.linalg.norm(dc)
        rays.append((p, R @ dc, (p, R[:, 2].copy())))
    level = 'oracle'
  if dim != size * len(rays):
    return Result('custom', check=lambda got: (False, 'sensor_dim=%d but %d rays x %d numbers documented' % (
        dim, len(rays), size)), cls='ray'), None
  out = np.zeros(dim)
  fragile = False
  o = 0
  for (org, dr, cam) in rays:
    r = ray_nearest(w, org, dr, bodyex)
    if r is None:
      return Result('none', level='isolation', note='unsupported-geom'), None
    dist, nrm, frag, g = r
    fragile = fragile or frag
    hit = dist >= 0
    point = org + dist * dr if hit else np.zeros(3)
    for f in fields:
      if f == 'dist':
        out[o] = dist
      elif f == 'dir':
        out[o:o + 3] = dr if hit else 0
      elif f == 'origin':
        out[o:o + 3] = org
      elif f == 'point':
        out[o:o + 3] = point
      elif f == 'normal':
        out[o:o + 3] = nrm if hit else 0
      elif f == 'depth':
        if not hit:
          out[o] = -1
        elif cam is None:
          out[o] = dist
        else:
          out[o] = -float((point - cam[0]) @ cam[1])
      o += RAY_SIZE[f]
  sc = 1 + float(np.max(np.abs(out)))
  return Result('tol' if not fragile else 'none', want=out, tol=1e-9 * sc, level=level, cls='ray',
                note='fragile' if fragile else ''), None


def expect(w, i, spec=None):
  """Expected reading of sensor i BEFORE cutoff (the caller applies apply_cutoff with datatype_of(kind)).
  spec: the generator's record of the sensor element (needed for contact / rangefinder data fields)."""
  m, d, E, lib = w.m, w.d, w.E, w.lib
  names = _names(E)
  t = int(m.sensor_type[i])
  kind = names[t]
  ot, oid = int(m.sensor_objtype[i]), int(m.sensor_objid[i])
  rt, rid = int(m.sensor_reftype[i]), int(m.sensor_refid[i])
  dim = int(m.sensor_dim[i])
  attrs = (spec or {}).get('attrs', {})
  g = w.gravity

  if kind in ('jointpos',):
    return Result('exact', want=np.array([d.qpos[int(m.jnt_qposadr[oid])]]), cls='copy')
  if kind == 'jointvel':
    return Result('exact', want=np.array([d.qvel[int(m.jnt_dofadr[oid])]]), cls='copy')
  if kind == 'tendonpos':
    return Result('exact', want=np.array([d.ten_length[oid]]), cls='copy')
  if kind == 'tendonvel':
    return Result('exact', want=np.array([d.ten_velocity[oid]]), cls='copy')
  if kind in ('actuatorpos', 'actuatorvel', 'actuatorfrc'):
    arr = dict(actuatorpos=d.actuator_length, actuatorvel=d.actuator_velocity, actuatorfrc=d.actuator_force)[kind]
    a = int(m.actuator_outadr[oid])
    return Result('exact', want=np.array(arr[a:a + dim]), cls='copy')
  if kind == 'jointactfrc':
    return Result('exact', want=np.array([d.qfrc_actuator[int(m.jnt_dofadr[oid])]]), cls='copy')
  if kind == 'tendonactfrc':
    tot = 0.0
    for a in range(int(m.nu)):
      if int(m.actuator_trntype[a]) == E.mjTRN_TENDON and int(m.actuator_trnid[a][0]) == oid:
        tot += float(d.actuator_force[int(m.actuator_outadr[a])])
    return Result('tol', want=np.array([tot]), tol=8 * EPS * (abs(tot) + 1), cls='copy')
  if kind == 'ballquat':
    q = np.array(d.qpos[int(m.jnt_qposadr[oid]):int(m.jnt_qposadr[oid]) + 4], dtype=float)
    return Result('tol', want=q / np.linalg.norm(q), tol=8 * EPS, cls='copy')
  if kind == 'ballangvel':
    a = int(m.jnt_dofadr[oid])
    return Result('exact', want=np.array(d.qvel[a:a + 3]), cls='copy')
  if kind == 'clock':
    return Result('exact', want=np.array([d.time]), cls='copy')

  if kind in ('jointlimitpos', 'jointlimitvel', 'jointlimitfrc', 'tendonlimitpos', 'tendonlimitvel', 'tendonlimitfrc'):
    isj = kind.startswith('joint')
    L = joint_limit(w, oid) if isj else tendon_limit(w, oid)
    rows = _limit_rows(w, E.mjCNSTR_LIMIT_JOINT if isj else E.mjCNSTR_LIMIT_TENDON, oid)
    if L['fragile'] or L['both']:
      return Result('none', level='isolation', note='limit-fragile' if L['fragile'] else 'limit-both-sides')
    if not isj and (int(m.ten_J_rownnz[oid]) == 0 or not np.any(np.array(
        d.ten_J[int(m.ten_J_rowadr[oid]):int(m.ten_J_rowadr[oid]) + int(m.ten_J_rownnz[oid])]))):
      # a tendon that no degree of freedom moves has an empty Jacobian row: the engine instantiates no limit
      # constraint for it, and the sensor is defined through "the corresponding limit constraint"
      return Result('none', level='isolation', note='limit-immobile-tendon')
    if bool(rows) != bool(L['active']):
      return Result('custom', cls='limit', check=lambda got: (False, 'limit of %s %d: reference says active=%s but '
                    'mjData has %d limit rows' % ('joint' if isj else 'tendon', oid, L['active'], len(rows))))
    if not L['active']:
      return Result('exact', want=np.zeros(1), cls='limit', note='inactive')
    r = rows[0]
    if kind.endswith('pos'):
      return Result('tol', want=np.array([L['value']]), tol=1e-13 * (1 + abs(L['value'])), cls='limit', note='active')
    if kind.endswith('vel'):
      if isj and int(m.jnt_type[oid]) == E.mjJNT_BALL:
        a = int(m.jnt_dofadr[oid])
        v = -float(L['axis'] @ np.array(d.qvel[a:a + 3]))
        sc = float(np.linalg.norm(d.qvel[a:a + 3]))
      elif isj:
        v = L['side'] * float(d.qvel[int(m.jnt_dofadr[oid])])
        sc = abs(v)
      else:
        v = L['side'] * float(d.ten_velocity[oid])
        sc = abs(v)
      return Result('tol', want=np.array([v]), tol=1e-12 * (1 + sc), cls='limit', note='active')
    return Result('exact', want=np.array([d.efc_force[r]]), cls='limit', note='active')

  if kind in ('framepos', 'framexaxis', 'frameyaxis', 'framezaxis'):
    p, R, b, ref = _rel_frame(w, i)
    v = p if kind == 'framepos' else R[:, 'xyz'.index(kind[5])]
    sc = 1 + np.linalg.norm(p)
    if ref is not None:
      pr, Rr, br = ref
      v = Rr.T @ (p - pr) if kind == 'framepos' else Rr.T @ v
      sc += np.linalg.norm(pr)
    return Result('tol', want=v, tol=1e-13 * sc, cls='pos')
  if kind == 'framequat':
    p, R, b, ref = _rel_frame(w, i)
    Rw = R if ref is None else ref[1].T @ R

    def check(got):
      got = np.asarray(got)
      if abs(np.linalg.norm(got) - 1) > 1e-12:
        return False, 'framequat is not a unit quaternion: |q|-1=%g' % (np.linalg.norm(got) - 1)
      e = float(np.max(np.abs(quat2mat(got) - Rw)))
      return e <= 1e-12, 'rotation of the reported quaternion differs from R_ref^T R_obj by %g' % e
    return Result('custom', check=check, cls='pos')
  if kind in ('framelinvel', 'frameangvel'):
    p, R, b, ref = _rel_frame(w, i)
    v, om = w.point_vel(b, p)
    sc = 1 + np.linalg.norm(v) + np.linalg.norm(om)
    if ref is not None:
      pr, Rr, br = ref
      vr, omr = w.point_vel(br, pr)
      # velocity of the object as seen from the moving reference frame: d/dt [R_ref^T (p - p_ref)]
      v = Rr.T @ (v - vr - cross(omr, p - pr))
      om = Rr.T @ (om - omr)
      sc += np.linalg.norm(vr) + np.linalg.norm(omr) * (1 + np.linalg.norm(p - pr))
    return Result('tol', want=v if kind == 'framelinvel' else om, tol=1e-12 * sc, cls='vel')
  if kind in ('framelinacc', 'frameangacc'):
    p, R, b = w.frame(ot, oid)
    a, al = w.point_acc(b, p)
    sc = 1 + w.acc_scale(b, p)
    static = int(m.body_dofnum[int(m.body_weldid[b])]) == 0
    return Result('tol', want=(a - g) if kind == 'framelinacc' else al, tol=FD_TOL * sc, cls='fd',
                  note='static-body' if static else '')

  if kind in ('velocimeter', 'gyro', 'accelerometer', 'magnetometer', 'force', 'torque', 'touch'):
    p, R, b = w.frame(E.mjOBJ_SITE, oid)
    if kind == 'magnetometer':
      B = np.array(m.opt.magnetic, dtype=float)
      return Result('tol', want=R.T @ B, tol=1e-13 * (1 + np.linalg.norm(B)), cls='pos')
    if kind in ('velocimeter', 'gyro'):
      v, om = w.point_vel(b, p)
      return Result('tol', want=R.T @ (v if kind == 'velocimeter' else om),
                    tol=1e-12 * (1 + np.linalg.norm(v) + np.linalg.norm(om)), cls='vel')
    if kind == 'accelerometer':
      a, _ = w.point_acc(b, p)
      static = int(m.body_dofnum[int(m.body_weldid[b])]) == 0
      return Result('tol', want=R.T @ (a - g), tol=FD_TOL * (1 + w.acc_scale(b, p)), cls='fd',
                    note='static-body' if static else '')
    if kind in ('force', 'torque'):
      if b == 0:
        return Result('none', level='isolation', note='ft-worldbody')
      ne = int(d.ne)
      if ne:
        et = np.array(d.efc_id[:ne])
        for e in set(int(x) for x in et):
          if int(m.eq_type[e]) in (E.mjEQ_CONNECT, E.mjEQ_WELD):
            return Result('none', level='isolation', note='ft-connect/weld')
      F, T, sF, sT = free_body_wrench(w, b, p)
      if kind == 'force':
        return Result('tol', want=R.T @ F, tol=FD_TOL * (1 + sF), cls='fd')
      return Result('tol', want=R.T @ T, tol=FD_TOL * (1 + sT), cls='fd')
    # touch
    typ = SITE_TYPES[int(m.site_type[oid])]
    size = np.array(m.site_size[oid])
    lo = hi = 0.0
    fragile = False
    ncand = n_inside = n_rayonly = 0
    for c in w.contacts():
      if not c['active'] or b not in c['body']:
        continue
      fn = float(c['wrench'][0])
      if fn <= 0:
        continue
      pl = R.T @ (c['pos'] - p)
      nl = R.T @ c['frame'][0]
      ins, s1 = inside_volume(typ, size, pl)
      b1, b2 = c['body']
      if b1 == b2:
        # contact between two geoms of the sensor's own body: the direction of the 'normal ray' is not defined by
        # the documentation -> bracket with the full line
        hit, s2 = line_hits_volume(typ, size, pl, nl)
        hit_lo = ins
      else:
        # re-projection ('the contact point may leave the sensor zone from the back'): the ray starts at the contact
        # point and runs along the contact normal out of the sensor's body, towards the other body
        # (mjContact.frame normal points from geom1 to geom2)
        hit, s2 = line_hits_volume(typ, size, pl, nl if b == b1 else -nl, half=True)
        hit_lo = hit or ins
      if abs(s1) < 1e-9 or abs(s2) < 1e-9:
        fragile = True
      ncand += 1
      if ins:
        n_inside += 1
      elif hit_lo:
        n_rayonly += 1          # point outside the zone, re-projection ray hits it
      if hit_lo:
        lo += fn
      if hit or ins:
        hi += fn
    if fragile:
      return Result('none', level='isolation', note='touch-fragile')
    r = Result('bounds', lo=lo, hi=hi, tol=1e-12 * (1 + hi), cls='touch',
               note='touch:%s' % ('none' if hi == 0 else 'exact' if lo == hi else 'bracket'))
    r.n_inside, r.n_rayonly, r.n_candidates = n_inside, n_rayonly, ncand
    return r

  if kind in ('subtreecom', 'subtreelinvel', 'subtreeangmom'):
    M, c, vc, L, sc = subtree_props(w, oid)
    if M <= 0:
      return Result('none', level='isolation', note='massless-subtree')
    if kind == 'subtreecom':
      return Result('tol', want=c, tol=1e-13 * (1 + np.linalg.norm(c)), cls='pos')
    if kind == 'subtreelinvel':
      return Result('tol', want=vc, tol=1e-12 * (1 + np.linalg.norm(vc)), cls='vel')
    return Result('tol', want=L, tol=1e-12 * (1 + sc), cls='vel')

  if kind == 'e_kinetic':
    if not w.nv:
      return Result('exact', want=np.zeros(1), cls='energy')
    Mm = lib.fullM(m, d)
    ek = 0.5 * float(w.qvel @ Mm @ w.qvel)
    return Result('tol', want=np.array([ek]), tol=1e-12 * (1 + abs(ek)), cls='energy')
  if kind == 'e_potential':
    es = spring_potential(w)
    if es is None:
      return Result('none', level='isolation', note='free-joint-spring')
    eg = 0.0
    sc = 1.0
    for b in range(1, w.nbody):
      eg -= float(m.body_mass[b]) * float(g @ np.array(d.xipos[b]))
      sc += float(m.body_mass[b]) * np.linalg.norm(g) * np.linalg.norm(d.xipos[b])
    return Result('tol', want=np.array([eg + es]), tol=1e-12 * (sc + abs(es)), cls='energy')

  if kind == 'camprojection':
    p, R, b = w.frame(E.mjOBJ_SITE, oid)
    if float(m.cam_sensorsize[rid][0]) or float(m.cam_sensorsize[rid][1]):
      return Result('none', level='isolation', note='cam-intrinsics')
    if int(m.cam_projection[rid]) != E.mjPROJ_PERSPECTIVE:
      return Result('none', level='isolation', note='orthographic-camera')
    px, depth, f = pinhole_project(w, rid, p)
    if abs(depth) < 1e-6:
      return Result('none', level='isolation', note='camprojection-fragile')
    return Result('tol', want=px, tol=1e-11 * (1 + float(np.max(np.abs(px)))) * (1 + 1 / abs(depth)), cls='pos')

  if kind == 'insidesite':
    p, R, b = w.frame(ot, oid)
    ps, Rs, _ = w.frame(E.mjOBJ_SITE, rid)
    ins, s = inside_volume(SITE_TYPES[int(m.site_type[rid])], np.array(m.site_size[rid]), Rs.T @ (p - ps))
    if abs(s) < 1e-9:
      return Result('none', level='isolation', note='insidesite-fragile')
    return Result('exact', want=np.array([1.0 if ins else 0.0]), cls='pos', note='inside' if ins else 'outside')

  if kind in ('geomdist', 'geomnormal', 'geomfromto'):
    return collision_expect(w, i, dict(geomdist='distance', geomnormal='normal', geomfromto='fromto')[kind])

  if kind == 'contact':
    r, unchecked, nmatch = contact_expect(w, i, attrs)
    r.unchecked = unchecked
    r.note = (r.note + ' ' if r.note else '') + ('nmatch>0' if nmatch else 'nmatch=0')
    return r

  if kind == 'rangefinder':
    r, _ = rangefinder_expect(w, i, attrs)
    return r

  return Result('none', level='isolation', note='no-law:' + kind)
