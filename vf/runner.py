"""Check runner: tiers, seeds, evidence, violations/replays, known findings, Hypothesis glue.

A check module defines `main(ck)` where ck is a Check.  Exit codes: 0 held, 1 violation, 2 harness error.
"""
import argparse
import collections
import hashlib
import importlib
import json
import os
import signal
import subprocess
import sys
import time
import traceback

VERIF = os.path.dirname(os.path.dirname(os.path.abspath(__file__)))
EVID = os.path.join(VERIF, 'evidence')
WORK = os.path.join(VERIF, 'work')
KNOWN = os.path.join(VERIF, 'known_findings.json')


class Violation(Exception):
  """The property under test does not hold for the current case."""

  def __init__(self, msg, bucket=None):
    Exception.__init__(self, msg)
    self.bucket = bucket


def _jsonable(x, depth=0):
  import numpy as np
  if depth > 6:
    return str(x)[:200]
  if isinstance(x, (str, int, bool)) or x is None:
    return x
  if isinstance(x, float):
    return x if x == x and abs(x) != float('inf') else repr(x)
  if isinstance(x, (np.integer,)):
    return int(x)
  if isinstance(x, (np.floating,)):
    return _jsonable(float(x))
  if isinstance(x, np.ndarray):
    return _jsonable(x.tolist(), depth + 1)
  if isinstance(x, bytes):
    return {'hex': x[:4096].hex()}
  if isinstance(x, dict):
    return {str(k): _jsonable(v, depth + 1) for k, v in x.items()}
  if isinstance(x, (list, tuple, set, frozenset)):
    return [_jsonable(v, depth + 1) for v in list(x)]
  if hasattr(x, 'to_json'):
    return _jsonable(x.to_json(), depth + 1)
  return str(x)[:500]


def digest(x):
  return hashlib.sha256(json.dumps(_jsonable(x), sort_keys=True).encode()).hexdigest()[:16]


class Check:
  def __init__(self, pid, tier, seed, level='exploration'):
    self.pid = pid
    self.tier = tier
    self.seed = seed
    self.level = level
    self.t0 = time.time()
    self.evaluations = 0
    self.nontrivial = set()
    self.samples = []
    self.max_samples = 5
    self.labels = collections.Counter()
    self.discards = collections.Counter()
    self.violations = []       # (bucket, msg, replay_path)
    self.known_hits = []
    self.rule = ''
    self.assumptions = []
    self.extra = {}
    self.exhaustive = None
    self._libs = {}
    self._known = self._load_known()
    self._last_case = None

  # ---- configuration helpers
  @property
  def quick(self):
    return self.tier == 'quick'

  def budget(self, quick, thorough):
    scale = float(os.environ.get('VERIF_SCALE', '1'))
    return max(1, int((quick if self.quick else thorough) * scale))

  def lib(self, variant='rel'):
    from . import mj
    if variant not in self._libs:
      self._libs[variant] = mj.load(variant)
    return self._libs[variant]

  # ---- evidence
  def case(self, nontrivial=False, key=None, sample=None, labels=()):
    """Record one executed case. key: hashable identity of the case for distinct counting."""
    self.evaluations += 1
    for l in labels:
      self.labels[l] += 1
    if nontrivial:
      k = digest(key if key is not None else sample if sample is not None else self.evaluations)
      if k not in self.nontrivial:
        self.nontrivial.add(k)
        if sample is not None and len(self.samples) < self.max_samples:
          self.samples.append(_jsonable(sample))
    elif sample is not None and not self.samples:
      self.samples.append(_jsonable(sample))

  def journal(self, case):
    """Persist the case about to be executed so that a process death can be attributed to it."""
    d = os.path.join(WORK, 'journal')
    os.makedirs(d, exist_ok=True)
    with open(os.path.join(d, self.pid + '.json'), 'w') as f:
      json.dump(_jsonable(case), f)

  def discard(self, why):
    self.discards[why] += 1

  def label(self, *ls):
    for l in ls:
      self.labels[l] += 1

  # ---- violations
  def _load_known(self):
    if not os.path.exists(KNOWN):
      return []
    with open(KNOWN) as f:
      data = json.load(f)
    return [e for e in data.get('findings', []) if e.get('property') == self.pid and e.get('status') == 'known']

  def known(self, fingerprint):
    for e in self._known:
      if e.get('fingerprint') == fingerprint:
        return e
    return None

  def violation(self, msg, replay, bucket=None, fingerprint=None):
    """Report a violation (or a KNOWN-FINDING if its fingerprint is listed)."""
    if fingerprint is not None:
      e = self.known(fingerprint)
      if e is not None:
        if fingerprint not in [k[0] for k in self.known_hits]:
          self.known_hits.append((fingerprint, e.get('what', msg)))
          print('KNOWN-FINDING: property=%s %s' % (self.pid, e.get('what', msg)), flush=True)
        return
    bucket = bucket or 'default'
    if any(v[0] == bucket for v in self.violations):
      return
    d = os.path.join(WORK, 'violations', self.pid)
    os.makedirs(d, exist_ok=True)
    body = dict(property=self.pid, bucket=bucket, message=msg, seed=self.seed, tier=self.tier,
                fingerprint=fingerprint, case=_jsonable(replay))
    path = os.path.join(d, '%s_%s.json' % (bucket.replace('/', '_')[:40], digest(body)))
    with open(path, 'w') as f:
      json.dump(body, f, indent=1)
    self.violations.append((bucket, msg, path))
    print('VIOLATION property=%s replay=%s' % (self.pid, path), flush=True)
    print('  bucket=%s: %s' % (bucket, msg[:2000]), flush=True)

  # ---- hypothesis glue
  def run_hypothesis(self, test, strategy, max_examples, name='main', stateful_steps=None, shrink=None,
                     fingerprint=None):
    """Run test(case) over cases drawn from strategy. Violation/AssertionError/MjError -> violation with the
    shrunk case as replay. Returns True if no failure."""
    import hypothesis
    from hypothesis import HealthCheck, Phase, settings
    from . import mj
    rp = getattr(self, 'replay_body', None)
    if rp is not None:
      # generic replay: only the named Hypothesis test is run, on the recorded (pickled) case
      c = rp.get('case') if isinstance(rp.get('case'), dict) else {}
      if c.get('check') != name or 'pickle' not in c:
        return True
      import base64, pickle
      case = pickle.loads(base64.b64decode(c['pickle']))
      self.replay_done = True
      try:
        test(case)
        self.nontrivial.update(['replay-a', 'replay-b'])
        return True
      except (Violation, AssertionError, mj.MjError) as e:
        self.violation('%s: %s' % (type(e).__name__, e), dict(check=name, case=case, pickle=c['pickle']),
                       bucket=getattr(e, 'bucket', None) or name, fingerprint=fingerprint(case, e) if fingerprint else None)
        return False
    if shrink is None:
      shrink = True
    phases = [Phase.explicit, Phase.generate] + ([Phase.shrink] if shrink else [])
    st = settings(max_examples=max_examples, deadline=None, database=None, derandomize=False,
                  report_multiple_bugs=False, phases=phases, print_blob=False,
                  suppress_health_check=list(HealthCheck))
    holder = {}

    shrink_budget = float(os.environ.get('VERIF_SHRINK_S', '45' if self.quick else '240'))

    def wrapped(case):
      if ('t_fail' in holder and time.time() - holder['t_fail'] > shrink_budget
          and repr(case) not in holder['failing']):
        return   # shrink budget used up: new candidates are not explored (known failing cases still fail)
      try:
        test(case)
      except (Violation, AssertionError, mj.MjError) as e:
        holder.setdefault('t_fail', time.time())
        holder.setdefault('failing', set()).add(repr(case))
        holder['case'] = case
        holder['exc'] = e
        raise

    seedv = (self.seed * 1000003 + int(hashlib.sha256(name.encode()).hexdigest()[:6], 16)) % (2 ** 31)
    fn = hypothesis.seed(seedv)(settings(st)(hypothesis.given(strategy)(wrapped)))
    try:
      fn()
      return True
    except (Violation, AssertionError, mj.MjError, hypothesis.errors.Flaky) as e:
      if 'exc' not in holder:
        raise
      e = holder.get('exc', e)
      case = holder.get('case')
      msg = '%s: %s' % (type(e).__name__, e)
      bucket = getattr(e, 'bucket', None) or name
      fp = fingerprint(case, e) if fingerprint else None
      rep = dict(check=name, case=case)
      try:
        import base64, pickle
        rep['pickle'] = base64.b64encode(pickle.dumps(case, protocol=4)).decode()   # exact object for the generic replay
      except Exception:
        pass
      self.violation(msg, rep, bucket=bucket, fingerprint=fp)
      return False

  # ---- finish
  def write_evidence(self):
    evid = EVID
    if os.environ.get('VERIF_REPO', '/repo').rstrip('/') != '/repo':
      evid = os.path.join(WORK, 'evidence_other_tree')   # mutant / scratch-tree runs never overwrite committed evidence
    os.makedirs(evid, exist_ok=True)
    cov = dict(evaluations=int(self.evaluations), distinct_nontrivial=len(self.nontrivial), rule=self.rule,
               samples=self.samples[:self.max_samples], labels=dict(self.labels.most_common(60)),
               discards=dict(self.discards))
    if self.exhaustive is not None:
      cov['exhaustive'] = bool(self.exhaustive)
    cov.update(_jsonable(self.extra))
    ev = dict(property_id=self.pid, tier=self.tier, seed=int(self.seed), level=self.level, coverage=cov,
              assumptions=self.assumptions, wall_s=round(time.time() - self.t0, 2),
              violations=len(self.violations))
    if self.known_hits:
      ev['known_findings'] = [k[1] for k in self.known_hits]
    path = os.path.join(evid, '%s.json' % self.pid)
    tmp = path + '.tmp%d' % os.getpid()
    with open(tmp, 'w') as f:
      json.dump(ev, f, indent=1)
    os.replace(tmp, path)
    return ev


def _child(pid, tier, seed, replay):
  try:
    mod = importlib.import_module('checks.%s' % pid.lower())
  except Exception:
    traceback.print_exc()
    print('HARNESS-ERROR property=%s (import)' % pid, flush=True)
    sys.exit(2)
  ck = Check(pid, tier, seed, getattr(mod, 'LEVEL', 'exploration'))
  try:
    if replay:
      with open(replay) as f:
        body = json.load(f)
      if hasattr(mod, 'replay'):
        mod.replay(ck, body)
      else:
        # generic replay. (a) a failure found by ck.run_hypothesis carries the pickled shrunk case: main() is executed with
        # every Hypothesis test replaced by "run the recorded case if it is yours"; (b) anything else (probes, worker-based
        # checks) is a pure function of code, tier and seed: the whole check is re-run at the recorded tier and seed.
        c = body.get('case') if isinstance(body.get('case'), dict) else {}
        if 'pickle' in c and 'check' in c:
          ck.replay_body = body
          ck.tier, ck.seed = body.get('tier', ck.tier), int(body.get('seed', ck.seed))
          mod.main(ck)
          if not getattr(ck, 'replay_done', False):
            print('HARNESS-ERROR property=%s: replay file names test %r which main() did not run' % (pid, c.get('check')), flush=True)
            sys.exit(2)
        else:
          ck.tier, ck.seed = body.get('tier', ck.tier), int(body.get('seed', ck.seed))
          if hasattr(mod, 'regressions'):
            mod.regressions(ck)
          mod.main(ck)
    else:
      if hasattr(mod, 'regressions'):
        mod.regressions(ck)
      mod.main(ck)
  except Violation as e:
    ck.violation('Violation: %s' % e, dict(note='raised outside hypothesis'), bucket=getattr(e, 'bucket', None))
  except Exception:
    traceback.print_exc()
    try:
      ck.extra['harness_error'] = traceback.format_exc()[-1500:]
      ck.write_evidence()
    except Exception:
      pass
    if ck.violations:
      # a violation was already reported (VIOLATION line + replay file) before the harness failed - typically the same broken
      # behaviour of the tree then also breaks a later stage of the harness: the verdict of the run is the violation
      print('HARNESS-ERROR-AFTER-VIOLATION property=%s (exit status 1: the violation above stands)' % pid, flush=True)
      sys.exit(1)
    print('HARNESS-ERROR property=%s' % pid, flush=True)
    sys.exit(2)
  ev = ck.write_evidence()
  print('[%s] tier=%s seed=%d evaluations=%d nontrivial=%d violations=%d known=%d wall=%.1fs' % (
      pid, tier, seed, ck.evaluations, len(ck.nontrivial), len(ck.violations), len(ck.known_hits), ev['wall_s']),
      flush=True)
  if ck.violations:
    sys.exit(1)
  if not replay and (ck.evaluations < 1 or len(ck.nontrivial) < 2):
    print('HARNESS-ERROR property=%s: vacuous run (evaluations=%d nontrivial=%d)' % (
        pid, ck.evaluations, len(ck.nontrivial)), flush=True)
    sys.exit(2)
  sys.exit(0)


def main(argv=None):
  ap = argparse.ArgumentParser()
  ap.add_argument('pid')
  ap.add_argument('--tier', default=os.environ.get('VERIF_TIER', 'quick'), choices=['quick', 'thorough'])
  ap.add_argument('--seed', type=int, default=None)
  ap.add_argument('--replay', default=None)
  ap.add_argument('--child', action='store_true')
  a = ap.parse_args(argv)
  seed = a.seed if a.seed is not None else int(os.environ.get('VERIF_SEED', '1') or '1')
  pid = a.pid.upper()
  if a.child:
    _child(pid, a.tier, seed, a.replay)
    return
  # supervise: a crash of the engine (signal) inside an in-process check is reported, not lost
  env = dict(os.environ)
  env['PYTHONHASHSEED'] = '0'
  env.setdefault('JAX_PLATFORMS', 'cpu')
  cmd = [sys.executable, '-m', 'vf.runner', pid, '--tier', a.tier, '--seed', str(seed), '--child']
  try:
    src = open(os.path.join(VERIF, 'checks', pid.lower() + '.py')).read()
  except OSError:
    src = ''
  j = os.path.join(WORK, 'journal', pid + '.json')
  if os.path.exists(j):
    os.unlink(j)
  asan_log = None
  if '\nASAN = True' in src:
    from . import build as vb
    os.makedirs(os.path.join(WORK, 'asan'), exist_ok=True)
    asan_log = os.path.join(WORK, 'asan', pid)
    for f in os.listdir(os.path.join(WORK, 'asan')):
      if f.startswith(pid + '.'):
        os.unlink(os.path.join(WORK, 'asan', f))
    env['LD_PRELOAD'] = vb.ASAN_RT
    env['ASAN_OPTIONS'] = 'detect_leaks=0:exitcode=99:abort_on_error=0:allocator_may_return_null=1:log_path=' + asan_log
  if a.replay:
    cmd += ['--replay', a.replay]
  # own process group: grandchildren that outlive the check (e.g. llvm-symbolizer processes of ASan workers, which would
  # keep inherited stdout/stderr pipes of our caller open) are killed when the check is over
  pr = subprocess.Popen(cmd, cwd=VERIF, env=env, start_new_session=True)
  try:
    rc = pr.wait()
  finally:
    try:
      os.killpg(pr.pid, signal.SIGKILL)
    except (ProcessLookupError, PermissionError):
      pass
  if rc < 0 or rc > 2:
    # child died: crash in code under test (or harness). Report with the journal if the check kept one.
    d = os.path.join(WORK, 'violations', pid)
    os.makedirs(d, exist_ok=True)
    path = os.path.join(d, 'crash_%d.json' % seed)
    body = dict(property=pid, bucket='process-death', message='check process died rc=%d' % rc, seed=seed, tier=a.tier)
    if os.path.exists(j):
      try:
        body['case'] = json.load(open(j))
      except Exception:
        pass
    if asan_log:
      for f in sorted(os.listdir(os.path.join(WORK, 'asan'))):
        if f.startswith(pid + '.'):
          body['sanitizer_report'] = open(os.path.join(WORK, 'asan', f), errors='replace').read()[:6000]
          print(body['sanitizer_report'][:1500], flush=True)
          break
    with open(path, 'w') as f:
      json.dump(body, f, indent=1)
    mod_crash_is_violation = True
    if mod_crash_is_violation:
      print('VIOLATION property=%s replay=%s' % (pid, path), flush=True)
      print('  process death rc=%d (signal %s)' % (rc, -rc if rc < 0 else '?'), flush=True)
      sys.exit(1)
  sys.exit(rc)


if __name__ == '__main__':
  from vf import runner as _r   # single module identity for Violation
  _r.main()
