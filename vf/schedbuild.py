"""Build executables that compile UNMODIFIED repo sources against the controlled scheduler (native/sched)."""
import hashlib
import os
import subprocess

from . import build as vb

SCHED = os.path.join(vb.NATIVE, 'sched')


def build(name, repo_sources, harness_sources, extra_flags=(), repo=None, prelude_sources=()):
  """repo_sources: paths relative to the repo, compiled with -include vf_sched_prelude.h.
  harness_sources: absolute paths compiled normally (+ native/sched/vf_sched.cc)."""
  repo = repo or vb.REPO
  inc = vb.includes(repo) + ['-I' + SCHED]
  base = [vb.CLANGXX, '-std=c++20', '-O1', '-g', '-fno-omit-frame-pointer', '-pthread', '-w'] + vb.COMMON_DEFS + list(extra_flags) + inc
  h = hashlib.sha256()
  h.update(vb.header_digest(repo).encode())
  for f in [os.path.join(repo, s) for s in repo_sources] + list(harness_sources) + list(prelude_sources) + [
      os.path.join(SCHED, 'vf_sched.cc'), os.path.join(SCHED, 'vf_sched.h'), os.path.join(SCHED, 'vf_sched_prelude.h')]:
    h.update(open(f, 'rb').read())
  h.update(' '.join(base).replace(repo, '<REPO>').encode())
  bindir = os.path.join(vb.CACHE, 'bin')
  os.makedirs(bindir, exist_ok=True)
  exe = os.path.join(bindir, '%s_%s' % (name, h.hexdigest()[:16]))
  if os.path.exists(exe):
    return exe
  objs = []
  tmpd = exe + '.build%d' % os.getpid()
  os.makedirs(tmpd, exist_ok=True)
  try:
    for i, s in enumerate([os.path.join(repo, s) for s in repo_sources] + list(prelude_sources)):
      o = os.path.join(tmpd, 'r%d.o' % i)
      p = subprocess.run(base + ['-I' + os.path.dirname(s), '-include', os.path.join(SCHED, 'vf_sched_prelude.h'), '-c', s, '-o', o],
                         capture_output=True, text=True)
      if p.returncode:
        raise vb.BuildError('sched build failed for %s:\n%s' % (s, p.stderr[-3000:]))
      objs.append(o)
    for i, s in enumerate(list(harness_sources) + [os.path.join(SCHED, 'vf_sched.cc')]):
      o = os.path.join(tmpd, 'h%d.o' % i)
      p = subprocess.run(base + ['-I' + os.path.dirname(s), '-c', s, '-o', o], capture_output=True, text=True)
      if p.returncode:
        raise vb.BuildError('sched build failed for %s:\n%s' % (s, p.stderr[-3000:]))
      objs.append(o)
    p = subprocess.run([vb.CLANGXX, '-pthread', '-o', exe + '.tmp'] + objs, capture_output=True, text=True)
    if p.returncode:
      raise vb.BuildError('sched link failed:\n%s' % p.stderr[-3000:])
    os.replace(exe + '.tmp', exe)
  finally:
    subprocess.run(['rm', '-rf', tmpd])
  return exe
